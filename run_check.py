#!/venv/bin/python
"""Entry point:  run_check.py C07 [--tier quick|thorough] [--replay FILE]

exit 0  property held on everything explored (KNOWN-FINDING lines may be printed)
exit 1  + line "VIOLATION property=<id> replay=<path>"
exit 2  harness error (never a verdict)
"""
import glob
import os
import subprocess
import sys

VERIF = os.path.dirname(os.path.abspath(__file__))
DEPS = os.path.join(VERIF, ".deps")
WHEELS = "/opt/veriftools/wheels"


def _ensure_env():
    # deterministic hashing + quiet progress bars: re-exec once if needed
    want = {"PYTHONHASHSEED": "0", "TQDM_DISABLE": "1",
            "PYTHONDONTWRITEBYTECODE": "1", "OMP_NUM_THREADS": "1",
            "OPENBLAS_NUM_THREADS": "1"}
    if any(os.environ.get(k) != v for k, v in want.items()):
        env = dict(os.environ)
        env.update(want)
        os.execve(sys.executable, [sys.executable] + sys.argv, env)


def _ensure_deps():
    sys.path.insert(0, DEPS)
    try:
        import hypothesis  # noqa
        return
    except ImportError:
        pass
    os.makedirs(DEPS, exist_ok=True)
    subprocess.run([sys.executable, "-m", "pip", "install", "--quiet",
                    "--no-index", "--find-links", WHEELS, "--target", DEPS,
                    "hypothesis"], check=False,
                   stdout=subprocess.DEVNULL, stderr=subprocess.DEVNULL)
    import importlib
    importlib.invalidate_caches()
    try:
        import hypothesis  # noqa
    except ImportError:
        print("HARNESS ERROR: hypothesis is not importable", file=sys.stderr)
        sys.exit(2)


def main():
    _ensure_env()
    if len(sys.argv) < 2:
        print(__doc__)
        return 2
    prop = sys.argv[1].upper()
    sys.path.insert(0, VERIF)
    _ensure_deps()
    src = os.path.join(os.environ.get("VERIF_REPO", "/repo"), "src")
    sys.path.insert(0, src)
    import logging
    # Logging stays ENABLED (code guarded by logger.isEnabledFor(...) must run
    # as it does for users; vlib.runner.set_case_environment varies the level
    # per case); it is only kept off the terminal: a handler on the root
    # logger makes basicConfig() of the command-line tools a no-op
    logging.getLogger().addHandler(logging.NullHandler())
    import warnings
    warnings.filterwarnings("ignore")
    import neuroglancer_scripts
    if not os.path.abspath(neuroglancer_scripts.__file__).startswith(
            os.path.abspath(src) + os.sep):
        print("HARNESS ERROR: neuroglancer_scripts imported from %s, not %s"
              % (neuroglancer_scripts.__file__, src), file=sys.stderr)
        return 2
    mods = glob.glob(os.path.join(VERIF, "checks", prop.lower() + "_*.py"))
    if len(mods) != 1:
        print("HARNESS ERROR: no unique check module for %s" % prop,
              file=sys.stderr)
        return 2
    import importlib
    mod = importlib.import_module(
        "checks." + os.path.basename(mods[0])[:-3])
    from vlib import runner
    try:
        return runner.main(mod, sys.argv[2:])
    except runner.HarnessError as exc:
        print("HARNESS ERROR: %s" % exc, file=sys.stderr)
        return 2


if __name__ == "__main__":
    try:
        rc = main()
    except SystemExit:
        raise
    except BaseException:  # noqa
        import traceback
        traceback.print_exc()
        rc = 2
    sys.stdout.flush()
    sys.stderr.flush()
    os._exit(rc if isinstance(rc, int) else 2)
