#!/venv/bin/python
"""Mutation self-test: applies each mutant of selftest/mutants.json to a
scratch copy of /repo (outside /repo and /verif), runs the quick check of the
property with VERIF_REPO pointing at the copy and expects exit 1.

usage: run_mutants.py [--only C07[,C11...]] [--id name] [--tests] [--jobs N]
  --tests  also run the repository's test suite on the mutant (it should
           still pass: the mutants model changes the tests do not notice)
"""
import argparse
import concurrent.futures
import json
import os
import shutil
import subprocess
import sys
import tempfile

VERIF = os.path.dirname(os.path.dirname(os.path.abspath(__file__)))


def run_one(m, with_tests):
    scratch = tempfile.mkdtemp(prefix="mutant-")
    try:
        root = os.path.join(scratch, "repo")
        shutil.copytree("/repo", root, ignore=shutil.ignore_patterns(
            ".git", "__pycache__", "*.pyc", ".pytest_cache"))
        edits = m.get("edits") or [m]
        for e in edits:
            p = os.path.join(root, e["file"])
            s = open(p).read()
            if s.count(e["old"]) < 1:
                return m, "STALE", "pattern not found in %s" % e["file"]
            s = s.replace(e["old"], e["new"], e.get("count", 1))
            open(p, "w").write(s)
        env = dict(os.environ, VERIF_REPO=root, VERIF_SEED=os.environ.get(
            "VERIF_SEED", "1"))
        tests = ""
        if with_tests:
            t = subprocess.run(
                "cd %s && PYTHONPATH=%s/src /venv/bin/python -m pytest -q -x "
                "-p no:cacheprovider unit_tests 2>&1 | tail -3" % (root, root),
                shell=True, capture_output=True, text=True, env=env)
            tests = " tests:[%s]" % t.stdout.strip().splitlines()[-1][:60]
        # evidence/replays of the mutant run must not pollute /verif
        ev = os.path.join(VERIF, "evidence", m["property"] + ".json")
        keep = open(ev).read() if os.path.exists(ev) else None
        r = subprocess.run(["/venv/bin/python", os.path.join(
            VERIF, "run_check.py"), m["property"], "--tier", "quick"],
            capture_output=True, text=True, env=env, cwd=VERIF)
        if keep is not None:
            open(ev, "w").write(keep)
        first = [l for l in r.stdout.splitlines() if l.startswith("  [")][:1]
        for l in r.stdout.splitlines():
            if l.startswith("VIOLATION"):
                path = l.split("replay=")[-1].strip()
                if os.path.basename(path).startswith("fail-"):
                    try:
                        os.unlink(path)
                    except OSError:
                        pass
        status = {1: "KILLED", 0: "SURVIVED"}.get(r.returncode, "ERROR")
        detail = (first[0][:200] if first else
                  (r.stderr.strip()[-300:] if status == "ERROR" else ""))
        return m, status, detail + tests
    finally:
        shutil.rmtree(scratch, ignore_errors=True)


def main():
    ap = argparse.ArgumentParser()
    ap.add_argument("--only")
    ap.add_argument("--id")
    ap.add_argument("--tests", action="store_true")
    ap.add_argument("--jobs", type=int, default=1)
    a = ap.parse_args()
    muts = json.load(open(os.path.join(VERIF, "selftest", "mutants.json")))
    if a.only:
        muts = [m for m in muts if m["property"] in a.only.split(",")]
    if a.id:
        muts = [m for m in muts if m["id"] in a.id.split(",")]
    bad = 0
    lp = os.path.join(VERIF, "selftest", "last_run.json")
    last = json.load(open(lp)) if os.path.exists(lp) else {}
    with concurrent.futures.ThreadPoolExecutor(a.jobs) as ex:
        for m, status, detail in ex.map(lambda m: run_one(m, a.tests), muts):
            print("%-8s %-4s %-34s %s" % (status, m["property"], m["id"],
                                          detail))
            sys.stdout.flush()
            last[m["id"]] = status.lower()
            if status != "KILLED":
                bad += 1
    json.dump(last, open(lp, "w"), indent=1, sort_keys=True)
    print("%d mutants, %d not killed" % (len(muts), bad))
    return 1 if bad else 0


if __name__ == "__main__":
    sys.exit(main())
