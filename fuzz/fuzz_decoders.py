#!/venv/bin/python
"""atheris (libFuzzer) target for the decoders of C10 and the mesh reader of
C17.  Coverage-guided; the semantic oracle is inside the target.

env FUZZ_KIND = raw | cseg | jpeg | mesh ; FUZZ_OUT = directory for stats and
violation files.  Input layout: 8 parameter bytes, then the file to decode.
"""
import json
import os
import sys

VERIF = os.path.dirname(os.path.dirname(os.path.abspath(__file__)))
sys.path[:0] = [os.path.join(os.environ.get("VERIF_REPO", "/repo"), "src"),
                VERIF, os.path.join(VERIF, ".deps")]
import logging  # noqa
logging.disable(logging.CRITICAL)
import atheris  # noqa

with atheris.instrument_imports(include=["neuroglancer_scripts"]):
    import neuroglancer_scripts._compressed_segmentation  # noqa
    import neuroglancer_scripts._jpeg  # noqa
    import neuroglancer_scripts.chunk_encoding  # noqa
    import neuroglancer_scripts.mesh  # noqa

from checks import c10_decoders, c17_mesh  # noqa
from vlib.jsonable import to_jsonable  # noqa
from vlib.runner import Violation  # noqa

KIND = os.environ.get("FUZZ_KIND", "cseg")
OUT = os.environ.get("FUZZ_OUT", ".")
STATS = {"execs": 0, "deep": 0, "array": 0, "format_error": 0}


class MiniCtx:
    def fail(self, msg):
        raise Violation(msg)


CTX = MiniCtx()


def params(data):
    p = bytes(data[:8]).ljust(8, b"\0")
    body = bytes(data[8:])
    size = [1 + p[1] % 6, 1 + p[2] % 6, 1 + p[3] % 6]
    if KIND == "raw":
        return {"decoder": "raw", "dtype": ["uint8", "uint16", "uint32",
                                            "uint64", "float32"][p[0] % 5],
                "channels": 1 + p[4] % 3, "size": size, "data": body,
                "origin": "atheris"}
    if KIND == "cseg":
        return {"decoder": "cseg", "dtype": ["uint32", "uint64"][p[0] % 2],
                "channels": 1 + p[4] % 3, "size": size,
                "block": [1 + p[5] % 8, 1 + p[6] % 8, 1 + p[7] % 8],
                "data": body, "origin": "atheris"}
    return {"decoder": "jpeg", "dtype": "uint8", "channels": [1, 3][p[0] % 2],
            "size": size, "data": body, "origin": "atheris"}


def flush_stats():
    with open(os.path.join(OUT, "stats-%s-%d.json" % (KIND, os.getpid())),
              "w") as f:
        json.dump(STATS, f)


def TestOneInput(data):
    STATS["execs"] += 1
    try:
        if KIND == "mesh":
            case = {"kind": "atheris", "data": bytes(data)}
            deep = c17_mesh.check_reader(CTX, case)
            STATS["deep"] += bool(deep)
        else:
            case = params(data)
            outcome, deep, _ = c10_decoders.decode_outcome(CTX, case)
            STATS[outcome] += 1
            STATS["deep"] += bool(deep)
    except Violation as exc:
        sub = {"raw": "raw", "cseg": "cseg", "jpeg": "jpeg",
               "mesh": "reader"}[KIND]
        prop = "C17" if KIND == "mesh" else "C10"
        with open(os.path.join(OUT, "violation-%s-%d.json" % (
                KIND, os.getpid())), "w") as f:
            json.dump({"property": prop, "subcheck": sub,
                       "message": str(exc), "case": to_jsonable(case)}, f)
        flush_stats()
        raise
    if STATS["execs"] % 2000 == 0:
        flush_stats()


if __name__ == "__main__":
    atheris.Setup(sys.argv, TestOneInput)
    atheris.Fuzz()
