#!/bin/sh
# Offline set-up: install the test libraries beside the repository's packages.
set -e
cd "$(dirname "$0")/.."
mkdir -p .deps evidence
/venv/bin/python -m pip install --quiet --no-index --find-links /opt/veriftools/wheels \
    --target .deps --upgrade hypothesis atheris jsonschema >/dev/null 2>&1 || \
/venv/bin/python -m pip install --quiet --no-index --find-links /opt/veriftools/wheels \
    --target .deps --upgrade hypothesis >/dev/null 2>&1 || true
PYTHONPATH=.deps /venv/bin/python -c "import hypothesis; print('hypothesis', hypothesis.__version__)"
PYTHONPATH=.deps /venv/bin/python -c "import atheris; print('atheris ok')" || echo "atheris unavailable (thorough C10/C17 fall back to Hypothesis)"
