#!/bin/sh
# usage: seed_eval_batch.sh <round number> [property ...]
# Evaluates /tmp/seed<round>/<Cxx>/OUT as S<round>-<Cxx> for every property
# given (default: all that have a patch.diff and no meta.json in seeded/ yet).
R=$1; shift
cd "$(dirname "$0")/.."
PROPS="$@"
if [ -z "$PROPS" ]; then
  for d in /tmp/seed$R/C*/OUT; do
    p=$(basename $(dirname $d))
    [ -f $d/patch.diff ] && [ ! -f seeded/S$R-$p/meta.json ] && PROPS="$PROPS $p"
  done
fi
for p in $PROPS; do
  echo "== $p"
  /venv/bin/python tools/seed_eval.py $p /tmp/seed$R/$p/OUT S$R-$p 2>&1 | tail -2 | cut -c1-300
done
