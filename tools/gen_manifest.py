#!/venv/bin/python
"""Regenerates MANIFEST.json from the table below + the check modules that
exist.  Properties whose check module is missing are listed under
not_applicable (with the reason) so the manifest is valid at all times."""
import glob
import json
import os

VERIF = os.path.dirname(os.path.dirname(os.path.abspath(__file__)))

T = {
 "C01": ("exploration", "4 C01", "Hypothesis-generated NIfTI volumes x options x infos x accessors; exact-rational value-mapping oracle on position-coded voxels",
         "generated-input search (Hypothesis) against an exact rational reference of the documented value mapping",
         "nibabel writes/reads the input faithfully (checked as a precondition); Fraction arithmetic; numpy"),
 "C02": ("exploration", "4 C02", "Hypothesis-generated label chunks x block sizes x palettes; a decoder written only from the format text must recover the chunk, plus structural validator and the package's own decoder",
         "generated-input search (Hypothesis) + differential against a spec-only reference decoder/validator",
         "refs/cseg_spec.py (written from the published format description)"),
 "C03": ("exploration", "4 C03", "Hypothesis rule-based state machine over write/read/reopen/invalid-write histories against a dict model and an independent grid predicate",
         "stateful model-based testing (Hypothesis RuleBasedStateMachine) with a dict model",
         "dict model; on_grid predicate; JPEG tolerance calibrated on smooth content"),
 "C04": ("exploration", "4 C04", "Hypothesis-generated grids x sharding triples x subsets x store orders; every stored chunk must be found by a reader written only from sharded.md, plus structural validator",
         "generated-input search (Hypothesis) + differential against a spec-only shard reader/validator",
         "refs/sharded_spec.py, refs/morton.py (Python-int, from the specification)"),
 "C05": ("exploration", "4 C05", "history pairs (orders x buffer strategies) for one chunk set, exhaustive permutations for small minishards: read-back equality, byte-identical shard trees, absent stays absent",
         "generated histories (Hypothesis) + exhaustive permutations of small sets; metamorphic relation between store orders",
         "dict model of the store; refs/morton.py"),
 "C06": ("exploration", "4 C06", "generated and hand-built infos x methods x dtypes x layouts: chunked pyramid == whole-array downscale; two poisoned-buffer runs must agree; per-axis model decides must-succeed envelope",
         "generated-input search (Hypothesis) with a metamorphic oracle (chunked = whole) and a poisoned-allocation differential",
         "the package's own Downscaler on a whole array (its correctness is C07's subject); refs/pyramid_model.py"),
 "C07": ("exploration", "4 C07", "Hypothesis-drawn arrays x factors x outside values compared element-wise with exact Fraction block statistics",
         "generated-input search (Hypothesis) against an exact-rational reference implementation",
         "refs/downscale_ref.py (Fraction arithmetic)"),
 "C08": ("exploration", "4 C08", "sizes x resolutions x targets x limits through the scale generator; validity predicate + encoder acceptance + pyramid compatibility model",
         "generated-input search (Hypothesis + pool sweep) against a validity predicate",
         "refs/pyramid_model.py; the predicate formalises the docstring of fill_scales_for_dyadic_pyramid"),
 "C09": ("exploration", "4 C09", "every grid up to 8^3 (thorough 12^3) x every position exhaustively, sampled up to 2^21 per axis, all bit triples in {0..8}^3: equality with a Python-int Morton code and routing reference",
         "exhaustive enumeration of small grids + generated-input search (Hypothesis) against a Python-int reference",
         "refs/morton.py"),
 "C10": ("exploration", "4 C10", "random bytes, mutated valid encodings and format-directed field edits for every decoder; outcome must be a right-shaped array or InvalidFormatError; atheris campaign in the thorough tier",
         "structured fuzzing (Hypothesis mutations of valid encodings; atheris coverage-guided in thorough) with an in-target outcome oracle",
         "refs/cseg_spec.py encoder for alternative valid layouts; Pillow"),
 "C11": ("exploration", "4 C11", "dtype pairs x edge values x array forms x copy modes compared element-wise with exact integer/rational conversion",
         "generated-input search (Hypothesis) against an exact integer/rational reference",
         "refs/dtype_ref.py"),
 "C12": ("exploration", "4 C12", "Hypothesis rule-based state machine over store/fetch/exists/overwrite/reopen/escape histories against a dict model, an independent path rule and a tree snapshot",
         "stateful model-based testing (Hypothesis RuleBasedStateMachine) with a dict model",
         "dict model; Python gzip; os.walk snapshots"),
 "C13": ("exploration", "4 C13", "generated source datasets x destination encodings/layouts/sharding (local and loopback HTTP) through convert-chunks; destination must decode to the in-memory source arrays",
         "generated-input search (Hypothesis) against in-memory ground truth through an exact dtype reference",
         "refs/dtype_ref.py; vlib/httpd.py"),
 "C14": ("exploration", "4 C14", "generated datasets served by a loopback static server implementing the documented rules, URL spellings and scripted server faults: HTTP bytes == local bytes == ground truth; faults raise",
         "generated-input search (Hypothesis) with a differential (HTTP vs local accessor vs ground truth) and scripted fault injection",
         "vlib/httpd.py implements docs/serving-data.rst"),
 "C15": ("exploration", "4 C15", "all 48 orientation codes x sizes x chunk sizes x channel layouts; out[c,z,y,x] must equal the pixel designated by an index mapping derived from the letters only",
         "exhaustive over the 48 codes x generated sizes (Hypothesis) against an index-mapping reference",
         "refs/orient_ref.py; Pillow PNG writer"),
 "C16": ("exploration", "4 C16", "generated affines x shapes x dtypes x sharding strings: centre/corner identity in nm, value-holding data type, compact-URL round trip",
         "generated-input search (Hypothesis) against the geometric identity T.(i+1/2)res == 1e6.A.i",
         "nibabel header handling; float64 tolerance 1e-9 relative"),
 "C17": ("exploration", "4 C17", "generated meshes, byte strings, affines, attribute sets and CSV tables against struct-based spec parsers, a VTK subset grammar and geometric identities",
         "generated-input search (Hypothesis; atheris for the reader in thorough) against spec parsers and geometric identities",
         "refs/mesh_spec.py, refs/vtk_grammar.py"),
 "C18": ("fault_enumeration", "4 C18", "for generated scenarios, every interposed I/O call x errno is failed and every event boundary is a crash point; error-type contract and 'complete, absent or detectably invalid' oracle",
         "fault injection enumerated over every I/O call / crash point of generated scenarios (I/O interposition layer)",
         "vlib/faultfs.py crash model: process killed between/inside write calls, earlier closed files intact"),
 "C19": ("exploration", "4 C19", "command programs drawn from a grammar of the documented workflows over small synthetic volumes: all-in-one == step-by-step, repeat == once, exit 0 => complete",
         "generated programs (Hypothesis over a command grammar) with relational oracles between runs",
         "nibabel to write inputs; in-process main(argv) with atexit captured, subprocess sample"),
 "C20": ("exploration", "4 C20", "exhaustive sweep of the formatter over 0..2^22 (thorough 2^26) and boundary windows, Hypothesis integers to 2^70, generated infos through the statistics report parsed back and compared with exact arithmetic and produced datasets",
         "exhaustive sweep + generated-input search (Hypothesis) against exact integer arithmetic",
         "regex parser of the report; Fraction arithmetic"),
}

PY = "/venv/bin/python"


def main():
    checks = []
    na = []
    for pid in sorted(T):
        level, ref, text, technique, note = T[pid]
        mods = glob.glob(os.path.join(VERIF, "checks", pid.lower() + "_*.py"))
        if not mods:
            na.append({"property_id": pid,
                       "reason": "check not built yet in this round (design "
                       "in DESIGN.md section " + ref + "); the technique "
                       "applies"})
            continue
        checks.append({
            "property_id": pid,
            "quick_cmd": "%s run_check.py %s --tier quick" % (PY, pid),
            "thorough_cmd": "%s run_check.py %s --tier thorough" % (PY, pid),
            "evidence_file": "/verif/evidence/%s.json" % pid,
            "replay_cmd_template": "%s run_check.py %s --replay {path}" % (
                PY, pid),
            "engine": "hypothesis-runner",
            "level_claimed": {"category": level, "text": text,
                              "design_ref": "DESIGN.md section " + ref},
            "level_note": note,
            "technique": technique,
        })
    manifest = {
        "version": 1,
        "setup_cmd": "sh tools/setup.sh",
        "hooks": {
            "guard": "NEUROGLANCER_SCRIPTS_VERIF",
            "enable": "no hooks: all instrumentation is harness-side "
                      "monkey-patching at run time; checks import the package "
                      "from /repo/src (working tree)",
            "baseline_off_cmd": "%s tools/baseline.py" % PY,
            "source_commits": [],
            "add_only": True,
        },
        "engines": [{
            "name": "hypothesis-runner",
            "path": "run_check.py",
            "serves_properties": [c["property_id"] for c in checks],
            "kind_free_text": "property-based testing / fuzzing driver: "
            "Hypothesis strategies and rule-based state machines, exhaustive "
            "sweeps over small finite domains, atheris campaigns in the "
            "thorough tier; explicit oracles in vlib/refs",
        }],
        "checks": checks,
        "not_applicable": na,
        "notes": "Run from /verif. VERIF_SEED selects the Hypothesis seeds; "
                 "known_findings.json lists genuine defects (fixed/open).",
    }
    with open(os.path.join(VERIF, "MANIFEST.json"), "w") as f:
        json.dump(manifest, f, indent=1)
    print("checks: %d, not_applicable: %d" % (len(checks), len(na)))


if __name__ == "__main__":
    main()
