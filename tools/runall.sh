#!/bin/sh
# runs every quick check once; prints a one-line verdict per property
cd /verif
for p in C01 C02 C03 C04 C05 C06 C07 C08 C09 C10 C11 C12 C13 C14 C15 C16 C17 C18 C19 C20; do
  s=$(date +%s); out=$(/venv/bin/python run_check.py $p 2>&1); rc=$?; e=$(date +%s)
  echo "$p rc=$rc $((e-s))s $(echo "$out" | head -1 | cut -c1-100)"
  echo "$out" | grep -E "VIOLATION|HARNESS" | head -3
done
