#!/venv/bin/python
"""Confirms a seeded change delivered by a sub-agent and runs the checks
against it.

usage: seed_eval.py <property> <agent OUT dir> <name> [--checks C02,C10]

Steps (all in a scratch worktree of /repo HEAD under /tmp, removed at the end):
  1. demo.py on the unchanged tree            -> must exit 0
  2. git apply patch.diff                     -> must apply
  3. the pinned test suite with the change    -> all 340 stable tests pass
  4. demo.py with the change                  -> must exit non-zero
  5. quick check(s) with VERIF_REPO=<worktree> -> exit 1 expected (detected)
The change is kept as /verif/seeded/<name>/ only if 1-4 hold.
"""
import argparse
import json
import os
import shutil
import subprocess
import sys
import tempfile
import xml.etree.ElementTree as ET

VERIF = os.path.dirname(os.path.dirname(os.path.abspath(__file__)))


def sh(cmd, **kw):
    return subprocess.run(cmd, shell=True, capture_output=True, text=True,
                          **kw)


def suite_ok(wt):
    base = json.load(open("/root/.vp/BASELINE.json"))
    fd, junit = tempfile.mkstemp(suffix=".xml")
    os.close(fd)
    cmd = base["cmd"].replace("cd /repo", "cd " + wt).replace("<file>", junit)
    env = dict(os.environ, PYTHONPATH=os.path.join(wt, "src"))
    subprocess.run(cmd, shell=True, env=env, capture_output=True, text=True)
    passed = set()
    for tc in ET.parse(junit).getroot().iter("testcase"):
        if not any(ch.tag in ("failure", "error", "skipped") for ch in tc):
            passed.add("%s::%s" % (tc.get("classname"), tc.get("name")))
    os.unlink(junit)
    missing = [t for t in base["stable_pass"] if t not in passed]
    return missing


def main():
    ap = argparse.ArgumentParser()
    ap.add_argument("prop")
    ap.add_argument("out")
    ap.add_argument("name")
    ap.add_argument("--checks", default=None)
    ap.add_argument("--needs", default="")
    a = ap.parse_args()
    checks = (a.checks or a.prop).split(",")
    scratch = tempfile.mkdtemp(prefix="seedeval-")
    wt = os.path.join(scratch, "repo")
    meta = {"property": a.prop, "name": a.name, "checks_run": {}}
    try:
        r = sh("git -C /repo worktree add --detach -q %s HEAD" % wt)
        if r.returncode:
            print(r.stderr)
            return 2
        env = dict(os.environ, PYTHONPATH=os.path.join(wt, "src"))
        demo = os.path.join(a.out, "demo.py")
        r1 = sh("/venv/bin/python %s" % demo, env=env, cwd=scratch)
        meta["demo_clean_exit"] = r1.returncode
        r = sh("git -C %s apply %s" % (wt, os.path.join(a.out, "patch.diff")))
        meta["patch_applies"] = r.returncode == 0
        if r.returncode:
            print("PATCH DOES NOT APPLY:", r.stderr[:500])
            return 1
        missing = suite_ok(wt)
        meta["suite_missing"] = missing[:10]
        r2 = sh("/venv/bin/python %s" % demo, env=env, cwd=scratch)
        meta["demo_changed_exit"] = r2.returncode
        meta["demo_changed_tail"] = (r2.stdout + r2.stderr)[-400:]
        valid = (r1.returncode == 0 and not missing and r2.returncode != 0)
        meta["confirmed"] = valid
        print("demo clean=%d changed=%d suite_missing=%d -> %s" % (
            r1.returncode, r2.returncode, len(missing),
            "CONFIRMED" if valid else "REJECTED"))
        for c in checks:
            ev = os.path.join(VERIF, "evidence", c + ".json")
            keep = open(ev).read() if os.path.exists(ev) else None
            rc = sh("/venv/bin/python %s/run_check.py %s --tier quick" % (
                VERIF, c), env=dict(os.environ, VERIF_REPO=wt), cwd=VERIF)
            if keep is not None:
                open(ev, "w").write(keep)
            first = [l for l in rc.stdout.splitlines()
                     if l.startswith("  [")][:1]
            for l in rc.stdout.splitlines():
                if l.startswith("VIOLATION") and "/fail-" in l:
                    try:
                        os.unlink(l.split("replay=")[-1].strip())
                    except OSError:
                        pass
            meta["checks_run"][c] = {
                "exit": rc.returncode,
                "detected": rc.returncode == 1,
                "first_violation": first[0][:300] if first else ""}
            print("  check %s: exit %d %s" % (c, rc.returncode,
                                              first[0][:220] if first else ""))
        if valid:
            dest = os.path.join(VERIF, "seeded", a.name)
            os.makedirs(dest, exist_ok=True)
            for fn in ("patch.diff", "demo.py", "notes.md"):
                src = os.path.join(a.out, fn)
                if os.path.exists(src):
                    shutil.copy(src, os.path.join(dest, fn))
            meta["breaks"] = a.prop
            meta["needs_to_manifest"] = a.needs
            meta["what_was_run"] = [
                "demo.py on a clean worktree of /repo HEAD (exit %d)"
                % r1.returncode,
                "git apply patch.diff; pinned suite via BASELINE.json cmd "
                "(missing stable tests: %d)" % len(missing),
                "demo.py with the change (exit %d)" % r2.returncode,
            ] + ["run_check.py %s --tier quick with VERIF_REPO=<patched "
                 "worktree> (exit %d)" % (c, meta["checks_run"][c]["exit"])
                 for c in checks]
            with open(os.path.join(dest, "meta.json"), "w") as f:
                json.dump(meta, f, indent=1)
        return 0
    finally:
        sh("git -C /repo worktree remove --force %s" % wt)
        shutil.rmtree(scratch, ignore_errors=True)


if __name__ == "__main__":
    sys.exit(main())
