#!/bin/sh
# usage: tools/at_commit.sh <commit> <command...>
# Runs the command with VERIF_REPO pointing at a scratch checkout of /repo at
# <commit> (outside /repo and /verif); the checkout is removed afterwards.
set -e
c="$1"; shift
d=$(mktemp -d /tmp/atcommit-XXXXXX)
git -C /repo worktree add --detach -q "$d/repo" "$c"
VERIF_REPO="$d/repo" "$@" || rc=$?
git -C /repo worktree remove --force "$d/repo"
rm -rf "$d"
exit ${rc:-0}
