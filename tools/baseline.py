#!/venv/bin/python
"""Runs the repository's pinned test suite (guard OFF - there are no hooks) and
compares with /root/.vp/BASELINE.json: every stable_pass test must pass."""
import json
import os
import subprocess
import sys
import tempfile
import xml.etree.ElementTree as ET

base = json.load(open("/root/.vp/BASELINE.json"))
fd, junit = tempfile.mkstemp(suffix=".xml")
os.close(fd)
env = dict(os.environ)
env.pop("NEUROGLANCER_SCRIPTS_VERIF", None)
cmd = base["cmd"].replace("<file>", junit)
p = subprocess.run(cmd, shell=True, env=env, stdout=subprocess.PIPE,
                   stderr=subprocess.STDOUT, text=True)
passed = set()
for tc in ET.parse(junit).getroot().iter("testcase"):
    if not any(ch.tag in ("failure", "error", "skipped") for ch in tc):
        passed.add("%s::%s" % (tc.get("classname"), tc.get("name")))
os.unlink(junit)
missing = [t for t in base["stable_pass"] if t not in passed]
print("stable_pass=%d passed_now=%d missing=%d" % (
    len(base["stable_pass"]), len(passed), len(missing)))
for t in missing[:20]:
    print("  MISSING", t)
sys.exit(1 if missing else 0)
