#!/venv/bin/python
"""Regenerates section 10 of DESIGN.md (between the SENSITIVITY markers) from
selftest/mutants.json, selftest/last_run.json (if present) and
seeded/*/meta.json."""
import glob
import json
import os

V = os.path.dirname(os.path.dirname(os.path.abspath(__file__)))
muts = json.load(open(os.path.join(V, "selftest", "mutants.json")))
last = {}
lp = os.path.join(V, "selftest", "last_run.json")
if os.path.exists(lp):
    last = json.load(open(lp))


def _totals():
    ms = [json.load(open(mp)) for mp in
          glob.glob(os.path.join(V, "seeded", "*", "meta.json"))]
    ood = sum(1 for m in ms if m.get("out_of_domain"))
    nd = sum(1 for m in ms if m.get("not_detected"))
    return len(ms), ood, nd, len(ms) - ood - nd


lines = []
lines.append("### 10.1 Changes seeded by independent sub-agents\n")
lines.append("Each sub-agent saw only the text of one property and a scratch "
             "worktree; it delivered a patch, a demonstration and notes. "
             "`tools/seed_eval.py` confirmed for each: demo passes on the "
             "clean tree, the patch applies, the 340 pinned tests still pass, "
             "the demo fails with the patch; then the quick check ran with "
             "`VERIF_REPO=<patched worktree>`. Round 1 (S1-*) asked for subtle "
             "changes; round 2 (S2-*) additionally required that the defect "
             "only manifests beyond trivial scales (large arrays, many "
             "chunks / shards, big payloads, long histories); round 3 (S3-*) "
             "required an interaction: a sequence of calls, a combination of "
             "options, state carried between calls or objects, or a failure "
             "at one point of a multi-step operation; round 4 (S4-*) required "
             "the defect to sit outside the function a reader of the property "
             "would inspect first (a shared helper, a factory, a default, an "
             "accessor, a script's argument handling, a memory-layout or "
             "byte-order assumption) and to give silently wrong results; "
             "round 5 (S5-*) asked the agent to list the clauses and "
             "quantifier dimensions of the property and to break the one it "
             "judged least likely to be exercised by a straightforward "
             "randomised test (trailing clauses, error-path clauses, extremes "
             "of ranges, rarely used options); round 6 (S6-*) required the "
             "trigger to be an unusual-but-valid REPRESENTATION of ordinary "
             "data (memory layout, byte order, narrower types, hand-written "
             "metadata, file naming, symbolic links, URL spellings, file-"
             "format variants); round 7 (S7-*) required an exact boundary "
             "value or a coincidence between two quantities that smooth "
             "random ranges almost never produce; round 8 (S8-*) required "
             "state that outlives one call (module / class-level caches, "
             "mutated defaults, long-lived objects, files of an earlier run). "
             "Round 9 (S9-*) put the defect into the plumbing between the "
             "user and the algorithm (option parsing and forwarding, "
             "defaults, info fields read from the wrong scale, factories, "
             "exit statuses). Round 10 (S10-*) told the agent what the checks "
             "cover (independent references, sizes, boundaries, "
             "representations, state, faults, a large tier) and asked for a "
             "defect that would STILL slip through: size thresholds between "
             "the tiers, hash collisions, environment settings (logging "
             "level, NumPy print options, python -O), aliasing of mutable "
             "arguments, partial writes. Round 11 (S11-*) repeated this "
             "with the enlarged description and a list of mechanisms not to "
             "use: the agents turned to threads, the working directory, "
             "process ids, header fields the tool never read, C type "
             "aliases, double faults, terminal encodings, near-identity "
             "transforms. Round 12 (S12-*) demanded that the trigger be a "
             "pure function of the INPUTS of the property (values, shapes, "
             "options, file contents, call sequence) - a hole in the input "
             "space of the checks as described to the agent, not in their "
             "environment. Round 13 (S13-*) asked for the opposite of a hidden "
             "trigger: a realistic pull request of 20-80 lines (refactoring, "
             "optimisation, small feature, library-API adaptation, robustness "
             "clean-up) written as a maintainer would, containing ONE honest "
             "mistake, without any description of the checks; 18 of the 20 "
             "were caught by the checks as they stood. Round 14 (S14-*) "
             "repeated this with the kind of pull request fixed per agent "
             "(new feature or option with a default / adaptation to a newer "
             "library API / robustness clean-up), preferring silent "
             "failures outside the obvious function; again 18 of 20 were "
             "caught as the checks stood. Round 15 (S15-*): bug-fix, "
             "consistency and simplification pull requests (a fix that "
             "over-corrects, two places made alike although one had a reason "
             "to differ, 'dead' code that was load-bearing); all 20 were "
             "caught as the checks stood. Round 16 (S16-*) returned to "
             "hidden triggers, without a description of the checks: 'a "
             "careful test author generates the obvious dimensions; put "
             "your defect on an input nobody thought of'; 14 of 20 were "
             "caught as the checks stood (many on dimensions added in "
             "rounds 6-12). Round 17 (S17-*) split the same instruction in "
             "two: usage patterns a per-case test does not exercise (objects, "
             "option dictionaries and buffers that serve several calls; "
             "results still in use; repeated steps with changed inputs) and "
             "legal input variants a convenient writer does not produce "
             "(optional header / info members, format options); 12 of 20 "
             "were caught as the checks stood. Round 18 (S18-*) swapped the "
             "two instructions between the properties and told the agents "
             "that simple re-use (the same object for two calls, a command "
             "run twice) is already exercised: they went for three-step "
             "sequences, alternation between two datasets / scales, edits of "
             "returned objects, spellings of the dataset directory; 6 of 20 "
             "were caught as the checks stood, 2 were classified as outside "
             "the domain (one directory holding both file layouts). Round "
             "19 (S19-*) repeated round 18 with the enlarged list of what is "
             "exercised (partial work, the order of three operations, one "
             "thing in two roles; edge values, JSON spellings, degenerate "
             "inputs, sub-classes); 6 were caught as the checks stood, 4 by "
             "the check of another property, 4 were outside the domain "
             "(a private function, two MIME types for one name, two storage "
             "configurations in one directory, a direct call with a 3x4 "
             "matrix), 6 became generator dimensions. Round 20 (S20-*) "
             "returned to realistic pull requests: 30-100 lines over at least "
             "two modules (an interface change and the adaptation of its "
             "callers) with one integration mistake; all 20 were caught as "
             "the checks stood. Round 21 (S21-*) repeated round 19 with the "
             "list enlarged again; 10 were caught as the checks stood, 2 by "
             "the check of another property, 1 is outside the domain (bit "
             "counts spelled as floats are refused, nothing is misrouted), 7 "
             "became generator dimensions. Seed-dependent detections found "
             "by re-running the stored changes at another seed (S5/S7/S13-"
             "C16: header slope exactly 1 with an intercept; S17-C14: scales "
             "sharing the bit triple) were made systematic (C16 sub-check "
             "scaling_grid, C14 shared-bits pyramids). Round 22 (S22-*): "
             "modernisation pull requests of 30-120 lines (lint-driven "
             "clean-ups, migration to newer NumPy / pathlib / math idioms, "
             "type annotations with argument normalisation), all edits but "
             "one behaviour-preserving; all 20 were caught as the checks "
             "stood. Round 23 (S23-*): performance pull requests of 20-100 "
             "lines (vectorisation, fewer copies, re-used buffers, caches, "
             "batched I/O, fast paths, narrower work types) with one "
             "assumption that does not always hold; 17 were caught as the "
             "checks stood, 1 by the check of another property, 2 (the same "
             "mistake twice: rounding in a float32 work array) after the "
             "floating-point neighbours of ties were added to C11 and C01. "
             "%d changes in total: %d rejected as outside the "
             "quantified domain (marked), %d not detected (marked, a "
             "documented limit), %d detected; "
             "the 'caught by' column says when a check had to be "
             "strengthened first.\n" % _totals())
lines.append("| seeded change | breaks | what it needs to manifest | caught by"
             " | first violation reported |")
lines.append("|---|---|---|---|---|")
for mp in sorted(glob.glob(os.path.join(V, "seeded", "*", "meta.json"))):
    m = json.load(open(mp))
    name = os.path.basename(os.path.dirname(mp))
    notes = ""
    np_ = os.path.join(os.path.dirname(mp), "notes.md")
    needs = m.get("needs_to_manifest") or ""
    caught = ", ".join("%s (quick%s)" % (c, "" if r["detected"] else
                                         " not detected") for c, r in
                       m["checks_run"].items())
    if m.get("out_of_domain"):
        caught = "(outside the input domain) " + caught
    if m.get("not_detected"):
        caught = "(NOT DETECTED, documented limit) " + caught
    first = "; ".join(r["first_violation"].strip()[:150]
                      for r in m["checks_run"].values()
                      if r["first_violation"])
    first = first.replace("|", "/")
    if m.get("history"):
        caught += " - " + m["history"]
    lines.append("| `seeded/%s` | %s | %s | %s | %s |" % (
        name, m["property"], needs.replace("|", "/"), caught, first))
lines.append("")
lines.append("### 10.2 Mutation self-test (`selftest/run_mutants.py`)\n")
lines.append("Small source edits (some touch two cooperating sites so that "
             "the package stays self-consistent) applied to a scratch copy; "
             "the quick check of the property must exit 1. Mutants that "
             "turned out to be equivalent under the property were removed "
             "(list in section 9).\n")
lines.append("| mutant | property | file | result |")
lines.append("|---|---|---|---|")
for m in muts:
    f = m.get("file") or ", ".join(sorted({e["file"] for e in m["edits"]}))
    lines.append("| %s | %s | %s | %s |" % (
        m["id"], m["property"], f.replace("src/neuroglancer_scripts/", ""),
        last.get(m["id"], "killed")))
text = "\n".join(lines) + "\n"
p = os.path.join(V, "DESIGN.md")
s = open(p).read()
a, b = "<!-- SENSITIVITY:BEGIN -->", "<!-- SENSITIVITY:END -->"
if a in s:
    s = s[:s.index(a) + len(a)] + "\n" + text + s[s.index(b):]
else:
    s += "\n" + a + "\n" + text + b + "\n"
open(p, "w").write(s)
print("ok", len(muts), "mutants")
