#!/venv/bin/python
"""Regenerates the table of sub-checks (section 4b of DESIGN.md) from the
check modules themselves."""
import glob
import importlib
import os
import sys

V = os.path.dirname(os.path.dirname(os.path.abspath(__file__)))
sys.path[:0] = [V, os.path.join(V, ".deps"), "/repo/src"]
rows = []
for path in sorted(glob.glob(os.path.join(V, "checks", "c[0-9][0-9]_*.py"))):
    mod = importlib.import_module("checks." + os.path.basename(path)[:-3])
    for s in mod.SUBS:
        doc = (s.run.__doc__ or "").strip().split("\n\n")[0].replace("\n",
                                                                      " ")
        doc = " ".join(doc.split())
        rows.append("| %s | `%s` | %s | %s | %s |" % (
            mod.PROPERTY, s.name, s.quick, s.thorough, doc))
text = ("| property | sub-check | quick budget | thorough budget | note |\n"
        "|---|---|---|---|---|\n" + "\n".join(rows) + "\n")
p = os.path.join(V, "DESIGN.md")
s = open(p).read()
a, b = "<!-- SUBCHECKS:BEGIN -->", "<!-- SUBCHECKS:END -->"
s = s[:s.index(a) + len(a)] + "\n" + text + s[s.index(b):]
open(p, "w").write(s)
print(len(rows), "sub-checks")
