#!/venv/bin/python
"""Validates MANIFEST.json and every evidence file against the schemas."""
import glob, json, os, sys
V = os.path.dirname(os.path.dirname(os.path.abspath(__file__)))
sys.path.insert(0, os.path.join(V, ".deps"))
import jsonschema
ok = True
def val(path, schema):
    global ok
    try:
        jsonschema.validate(json.load(open(path)), json.load(open(schema)))
        print("ok  ", path)
    except Exception as e:
        ok = False
        print("FAIL", path, str(e)[:300])
val(os.path.join(V, "MANIFEST.json"), "/root/.vp/MANIFEST.schema.json")
for p in sorted(glob.glob(os.path.join(V, "evidence", "*.json"))):
    val(p, "/root/.vp/EVIDENCE.schema.json")
sys.exit(0 if ok else 1)
