#!/venv/bin/python
"""Re-runs the quick check(s) against every stored seeded change
(seeded/*/patch.diff) and reports the ones that are no longer detected.

usage: seed_recheck.py [--only S3-C05,S4-C02] [--jobs 4] [--seed N]

Each job works on private copies under a scratch directory outside /repo and
/verif (a copy of /repo's working tree with the patch applied, and a copy of
/verif without .git so that evidence / replay files of the real tree are not
touched); both are removed afterwards.  Writes selftest/seed_recheck.json.
"""
import argparse
import concurrent.futures
import glob
import json
import os
import shutil
import subprocess
import sys
import tempfile

VERIF = os.path.dirname(os.path.dirname(os.path.abspath(__file__)))
REPO = os.environ.get("VERIF_REPO", "/repo")


def job(args):
    name, checks, seed, workers = args
    scratch = tempfile.mkdtemp(prefix="recheck-")
    try:
        repo = os.path.join(scratch, "repo")
        verif = os.path.join(scratch, "verif")
        subprocess.run(["rsync", "-a", "--exclude", ".git", REPO + "/",
                        repo + "/"], check=True)
        subprocess.run(["rsync", "-a", "--exclude", ".git", "--exclude",
                        ".deps", "--exclude", "seeded", VERIF + "/",
                        verif + "/"], check=True)
        os.symlink(os.path.join(VERIF, ".deps"), os.path.join(verif, ".deps"))
        patch = os.path.join(VERIF, "seeded", name, "patch.diff")
        r = subprocess.run(["patch", "-p1", "-s", "-d", repo, "-i", patch],
                           capture_output=True, text=True)
        if r.returncode:
            return name, {"error": "patch does not apply: " +
                          (r.stdout + r.stderr)[:300]}
        out = {}
        for c in checks:
            env = dict(os.environ, VERIF_REPO=repo, VERIF_SEED=str(seed))
            rc = subprocess.run(
                ["/venv/bin/python", os.path.join(verif, "run_check.py"), c,
                 "--tier", "quick", "--workers", str(workers)], env=env,
                cwd=verif,
                capture_output=True, text=True)
            first = [ln for ln in rc.stdout.splitlines()
                     if ln.startswith("  [")][:1]
            out[c] = {"exit": rc.returncode,
                      "first": first[0][:200] if first else
                      (rc.stderr[-200:] if rc.returncode not in (0, 1)
                       else "")}
        return name, out
    finally:
        shutil.rmtree(scratch, ignore_errors=True)


def main():
    ap = argparse.ArgumentParser()
    ap.add_argument("--only", default=None)
    ap.add_argument("--jobs", type=int, default=4)
    ap.add_argument("--seed", type=int, default=1)
    ap.add_argument("--add-checks", default=None,
                    help="comma-separated checks to run in addition; a "
                    "detection is recorded in the seed's meta.json")
    ap.add_argument("--workers", type=int, default=14,
                    help="workers of each check run (the case streams depend "
                    "on it: 14 is what the registered commands use)")
    a = ap.parse_args()
    tasks = []
    for mp in sorted(glob.glob(os.path.join(VERIF, "seeded", "*",
                                            "meta.json"))):
        m = json.load(open(mp))
        name = os.path.basename(os.path.dirname(mp))
        if a.only and name not in a.only.split(","):
            continue
        if m.get("out_of_domain") or m.get("not_detected"):
            continue
        checks = [c for c, r in m["checks_run"].items() if r["detected"]] \
            or [m["property"]]
        if a.add_checks:
            checks += [c for c in a.add_checks.split(",") if c not in checks]
        tasks.append((name, checks or [m["property"]], a.seed, a.workers))
    res = {}
    bad = 0
    with concurrent.futures.ThreadPoolExecutor(a.jobs) as ex:
        for name, out in ex.map(job, tasks):
            res[name] = out
            if "error" in out:
                print("ERROR    %-8s %s" % (name, out["error"]))
                bad += 1
                continue
            # a change counts as detected when one of its checks reports it
            bad += not any(r["exit"] == 1 for r in out.values())
            for c, r in out.items():
                ok = r["exit"] == 1
                if ok and a.add_checks and c in a.add_checks.split(","):
                    mp = os.path.join(VERIF, "seeded", name, "meta.json")
                    m = json.load(open(mp))
                    if not m["checks_run"].get(c, {}).get("detected"):
                        m["checks_run"][c] = {
                            "exit": 1, "detected": True,
                            "first_violation": r["first"]}
                        json.dump(m, open(mp, "w"), indent=1)
                print("%-8s %-8s %s %s" % ("DETECTED" if ok else "MISSED",
                                           name, c, r["first"][:150]))
            sys.stdout.flush()
    out_path = os.path.join(VERIF, "selftest", "seed_recheck.json")
    if a.only and os.path.exists(out_path):
        # a partial run updates the stored result instead of replacing it
        try:
            old = json.load(open(out_path))
        except ValueError:
            old = {}
        old.update(res)
        res = old
    with open(out_path, "w") as f:
        json.dump(res, f, indent=1, sort_keys=True)
    print("%d seeded changes, %d not detected" % (len(tasks), bad))
    return 1 if bad else 0


if __name__ == "__main__":
    sys.exit(main())
