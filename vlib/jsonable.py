"""Conversion of generated cases to/from plain JSON (for replay files and hashing)."""
import hashlib
import json
from fractions import Fraction

import numpy as np


def to_jsonable(obj):
    if obj is None or isinstance(obj, (bool, str)):
        return obj
    if isinstance(obj, (int,)):
        return obj
    if isinstance(obj, float):
        if obj != obj or obj in (float("inf"), float("-inf")):
            return {"__float__": repr(obj)}
        return obj
    if isinstance(obj, np.generic):
        return to_jsonable(obj.item())
    if isinstance(obj, (bytes, bytearray, memoryview)):
        return {"__bytes__": bytes(obj).hex()}
    if isinstance(obj, np.ndarray):
        return {"__ndarray__": to_jsonable(obj.tolist()), "dtype": obj.dtype.str
                if obj.dtype.names is None else str(obj.dtype),
                "shape": list(obj.shape)}
    if isinstance(obj, Fraction):
        return {"__fraction__": [obj.numerator, obj.denominator]}
    if isinstance(obj, dict):
        if all(isinstance(k, str) for k in obj):
            return {k: to_jsonable(v) for k, v in obj.items()}
        return {"__dict__": [[to_jsonable(k), to_jsonable(v)]
                             for k, v in obj.items()]}
    if isinstance(obj, (list, tuple)):
        return [to_jsonable(v) for v in obj]
    if isinstance(obj, (set, frozenset)):
        return {"__set__": sorted((to_jsonable(v) for v in obj),
                                  key=lambda v: json.dumps(v, sort_keys=True))}
    return {"__repr__": repr(obj)}


def from_jsonable(obj):
    if isinstance(obj, list):
        return [from_jsonable(v) for v in obj]
    if isinstance(obj, dict):
        if "__bytes__" in obj and len(obj) == 1:
            return bytes.fromhex(obj["__bytes__"])
        if "__float__" in obj and len(obj) == 1:
            return float(obj["__float__"])
        if "__ndarray__" in obj:
            return np.array(from_jsonable(obj["__ndarray__"]),
                            dtype=np.dtype(obj["dtype"])).reshape(obj["shape"])
        if "__fraction__" in obj and len(obj) == 1:
            return Fraction(*obj["__fraction__"])
        if "__dict__" in obj and len(obj) == 1:
            return {_hashable(from_jsonable(k)): from_jsonable(v)
                    for k, v in obj["__dict__"]}
        if "__set__" in obj and len(obj) == 1:
            return {_hashable(from_jsonable(v)) for v in obj["__set__"]}
        return {k: from_jsonable(v) for k, v in obj.items()}
    return obj


def _hashable(v):
    if isinstance(v, list):
        return tuple(_hashable(x) for x in v)
    return v


def case_hash(obj):
    s = json.dumps(to_jsonable(obj), sort_keys=True, separators=(",", ":"))
    return int.from_bytes(hashlib.blake2b(s.encode(), digest_size=8).digest(),
                          "big")


def short(obj, limit=600):
    """A compact JSON rendering for samples (truncated)."""
    s = json.dumps(to_jsonable(obj), sort_keys=True, separators=(",", ":"))
    if len(s) > limit:
        return s[:limit] + "...(%d chars)" % len(s)
    return s
