"""Helpers to build, write and read whole precomputed datasets through the
package's public I/O layer, plus tree snapshots and atexit capture."""
import atexit
import contextlib
import hashlib
import json
import os

import numpy as np

SHARD_TYPE = "neuroglancer_uint64_sharded_v1"


def ceil_div(a, b):
    return -(-a // b)


def chunk_coords_list(size, chunk):
    """All on-grid chunk coordinates (xmin,xmax,ymin,ymax,zmin,zmax)."""
    out = []
    for z in range(0, size[2], chunk[2]):
        for y in range(0, size[1], chunk[1]):
            for x in range(0, size[0], chunk[0]):
                out.append((x, min(x + chunk[0], size[0]),
                            y, min(y + chunk[1], size[1]),
                            z, min(z + chunk[2], size[2])))
    return out


def sharding_dict(minishard_bits, shard_bits, preshift_bits, index_enc="raw",
                  data_enc="raw"):
    d = {"@type": SHARD_TYPE, "minishard_bits": minishard_bits,
         "shard_bits": shard_bits, "preshift_bits": preshift_bits,
         "hash": "identity", "minishard_index_encoding": index_enc,
         "data_encoding": data_enc}
    # the two encoding fields are optional and default to "raw": a third of
    # the parameter triples leave out one field that has its default value (a
    # hand-written info), the rest spell everything out (as the package does)
    k = (minishard_bits + shard_bits + preshift_bits) % 6
    if k == 1 and data_enc == "raw":
        del d["data_encoding"]
    elif k == 3 and index_enc == "raw":
        del d["minishard_index_encoding"]
    return d


def make_scale(key, size, chunk, encoding="raw", resolution=(1, 1, 1),
               block=None, sharding=None):
    s = {"key": key, "size": list(size), "chunk_sizes": [list(chunk)],
         "encoding": encoding, "resolution": list(resolution),
         "voxel_offset": [0, 0, 0]}
    if encoding == "compressed_segmentation":
        s["compressed_segmentation_block_size"] = list(block or [8, 8, 8])
    if sharding:
        s["sharding"] = dict(sharding)
    return s


def make_info(data_type, num_channels, scales, type_="image"):
    return {"type": type_, "data_type": data_type,
            "num_channels": num_channels, "scales": scales}


def open_accessor(kind, path):
    """kind: {"type": "file", "flat": bool, "gzip": bool, "compresslevel": n}
    or {"type": "sharded", "strategy": "on disk" | "in memory"}."""
    if kind["type"] == "file":
        from neuroglancer_scripts.file_accessor import FileAccessor
        return FileAccessor(path, flat=kind.get("flat", False),
                            gzip=kind.get("gzip", True),
                            compresslevel=kind.get("compresslevel", 9))
    from neuroglancer_scripts.sharded_file_accessor import ShardedFileAccessor
    return ShardedFileAccessor(path, strategy=kind.get("strategy", "on disk"))


def new_dataset(info, kind, path, encoder_options={}):
    from neuroglancer_scripts import precomputed_io
    acc = open_accessor(kind, path)
    return precomputed_io.get_IO_for_new_dataset(
        json.loads(json.dumps(info)), acc, encoder_options=encoder_options)


def open_dataset(path, accessor_options={}, encoder_options={}):
    """Fresh accessor through the public factory, as a later command would."""
    from neuroglancer_scripts import accessor, precomputed_io
    acc = accessor.get_accessor_for_url(path, accessor_options)
    return precomputed_io.get_IO_for_existing_dataset(
        acc, encoder_options=encoder_options)


def close_accessor(pio_or_acc):
    acc = getattr(pio_or_acc, "accessor", pio_or_acc)
    if hasattr(acc, "close"):
        acc.close()


def write_scale(pio, scale_info, arr):
    """arr is (C, Z, Y, X)."""
    key = scale_info["key"]
    for cc in chunk_coords_list(scale_info["size"],
                                scale_info["chunk_sizes"][0]):
        x0, x1, y0, y1, z0, z1 = cc
        pio.write_chunk(np.ascontiguousarray(arr[:, z0:z1, y0:y1, x0:x1]),
                        key, cc)


def read_scale(pio, scale_info, dtype, num_channels):
    size = scale_info["size"]
    out = np.zeros((num_channels, size[2], size[1], size[0]),
                   dtype=np.dtype(dtype))
    for cc in chunk_coords_list(size, scale_info["chunk_sizes"][0]):
        x0, x1, y0, y1, z0, z1 = cc
        chunk = pio.read_chunk(scale_info["key"], cc)
        if chunk.shape != (num_channels, z1 - z0, y1 - y0, x1 - x0):
            raise AssertionError("chunk %s has shape %s" % (cc, chunk.shape))
        if chunk.dtype != np.dtype(dtype):
            raise AssertionError("chunk %s has dtype %s, expected %s" % (
                cc, chunk.dtype, np.dtype(dtype)))
        out[:, z0:z1, y0:y1, x0:x1] = chunk
    return out


def tree_snapshot(path):
    snap = {}
    for root, dirs, files in os.walk(path):
        dirs.sort()
        rel = os.path.relpath(root, path)
        if not files and not dirs:
            snap[rel + "/"] = "dir"
        for fn in sorted(files):
            p = os.path.join(root, fn)
            with open(p, "rb") as f:
                snap[os.path.normpath(os.path.join(rel, fn))] = hashlib.sha1(
                    f.read()).hexdigest()
    return snap


@contextlib.contextmanager
def captured_atexit():
    """Collects atexit registrations made inside the block and runs them (in
    reverse order, as the interpreter would at process exit) when the block
    ends normally."""
    callbacks = []
    orig = atexit.register

    def register(fn, *a, **k):
        callbacks.append((fn, a, k))
        return fn
    atexit.register = register
    try:
        yield callbacks
    finally:
        atexit.register = orig
    for fn, a, k in reversed(callbacks):
        fn(*a, **k)


def position_code(shape, dtype, seed=0):
    """Array (C,Z,Y,X) whose values are an injective function of the position
    (modulo the dtype range): transpositions, flips and misplaced chunks are
    all visible."""
    C, Z, Y, X = shape
    c, z, y, x = np.meshgrid(np.arange(C), np.arange(Z), np.arange(Y),
                             np.arange(X), indexing="ij")
    code = (x + 37 * y + 37 * 41 * z + 37 * 41 * 43 * c + seed).astype(
        np.uint64)
    dt = np.dtype(dtype)
    if dt.kind == "f":
        return (code % 100003).astype(dt)
    if dt.itemsize == 8:
        return code.astype(dt)
    return (code % np.uint64(int(np.iinfo(dt).max) + 1)).astype(dt)


LAYOUTS = ("c", "fortran", "strided", "bigendian", "readonly", "transposed")
# ... and, for the chunk I/O layer, a masked array (what nibabel / scipy
# pipelines hand over after thresholding): its data are the chunk
LAYOUTS_IO = LAYOUTS + ("masked",)


def laid_out(arr, layout):
    """The same array values in another memory layout (all of them are what
    numpy-level callers hand to the I/O layer: views into a larger volume,
    Fortran-ordered or transposed blocks of a re-oriented stack, big-endian
    data of a big-endian file, read-only memory maps)."""
    if layout == "c":
        out = np.ascontiguousarray(arr).copy()
    elif layout == "fortran":
        out = np.asfortranarray(arr)
    elif layout == "strided":
        big = np.zeros(tuple(2 * s + 1 for s in arr.shape), arr.dtype)
        out = big[tuple(slice(1, None, 2) for _ in arr.shape)]
        out[...] = arr
    elif layout == "bigendian":
        out = arr.astype(arr.dtype.newbyteorder(">"))
    elif layout == "readonly":
        out = np.ascontiguousarray(arr).copy()
        out.setflags(write=False)
    elif layout == "transposed":
        axes = tuple(reversed(range(arr.ndim)))
        out = np.ascontiguousarray(arr.transpose(axes)).transpose(axes)
    elif layout == "masked":
        mask = (np.arange(arr.size).reshape(arr.shape) % 3) == 1
        out = np.ma.MaskedArray(np.ascontiguousarray(arr).copy(), mask=mask)
    else:
        raise ValueError(layout)
    assert out.shape == arr.shape and np.array_equal(np.asarray(out), arr)
    return out


REGULAR_KINDS = ("one_axis", "flat_periodic", "tiled")


def regular_labels(shape, dt, rng, kind=None, block=None):
    """Label arrays (C,Z,Y,X) with REGULAR structure, as real segmentations
    and synthetic test volumes have: labels that depend on one coordinate
    only, labels periodic in the flat (C-order) voxel index, or one small tile
    repeated.  Many blocks of such an array - including incomplete border
    blocks of DIFFERENT shapes - hold byte-identical voxel sequences, which
    random labels never produce."""
    dt = np.dtype(dt)
    hi = int(np.iinfo(dt).max) if dt.kind in "iu" else 2 ** 20
    kind = kind or REGULAR_KINDS[int(rng.integers(len(REGULAR_KINDS)))]
    k = int(rng.integers(2, 6))
    pal = np.unique(rng.integers(0, hi, size=k, dtype=np.uint64,
                                 endpoint=True))
    if len(pal) < 2:
        pal = np.array([0, hi], dtype=np.uint64)
    C, Z, Y, X = shape
    if kind == "one_axis":
        ax = int(rng.integers(1, 4))
        n = shape[ax]
        line = pal[rng.integers(0, len(pal), size=n)]
        if n >= 2 and len(set(line.tolist())) < 2:
            line[0], line[1] = pal[0], pal[1]
        sh = [1, 1, 1, 1]
        sh[ax] = n
        out = np.broadcast_to(line.reshape(sh), shape)
    elif kind == "flat_periodic":
        period = int(rng.integers(2, 6))
        seq = pal[np.arange(period) % len(pal)]
        idx = np.arange(Z * Y * X) % period
        out = np.broadcast_to(seq[idx].reshape(1, Z, Y, X), shape)
    else:
        t = block or [int(rng.integers(1, 4)) for _ in range(3)]
        tile = pal[rng.integers(0, len(pal), size=(t[2], t[1], t[0]))]
        reps = (-(-Z // t[2]), -(-Y // t[1]), -(-X // t[0]))
        out = np.broadcast_to(np.tile(tile, reps)[:Z, :Y, :X], shape)
    return np.ascontiguousarray(out).astype(dt)
