"""Launches atheris campaigns (fuzz/fuzz_decoders.py) as subprocesses and
merges their results into the check context."""
import glob
import json
import os
import subprocess
import sys

from vlib.jsonable import from_jsonable
from vlib.runner import VERIF


def available():
    try:
        sys.path.insert(0, os.path.join(VERIF, ".deps"))
        import atheris  # noqa
        return True
    except Exception:
        return False


def campaign(ctx, kinds, seeds_for, deep_fn, runs=None, seconds=None,
             max_len=1024):
    """kinds: list of FUZZ_KIND; seeds_for(kind) -> list of bytes (valid
    inputs) or []; deep_fn(kind, data) -> bool (non-trivial input?)."""
    if not available():
        ctx.notes.append("atheris is not importable: campaign skipped (the "
                         "Hypothesis sub-checks cover the same oracle)")
        return
    procs = []
    base = ctx.tmpdir("atheris")
    for kind in kinds:
        for variant in ("empty", "seeded"):
            out = os.path.join(base, "%s-%s" % (kind, variant))
            corpus = os.path.join(out, "corpus")
            os.makedirs(corpus)
            if variant == "seeded":
                for i, s in enumerate(seeds_for(kind)):
                    with open(os.path.join(corpus, "seed%03d" % i), "wb") as f:
                        f.write(s)
            args = [sys.executable, os.path.join(VERIF, "fuzz",
                                                 "fuzz_decoders.py"),
                    "-seed=%d" % (ctx.hseed % (2 ** 31 - 1) + 1),
                    "-max_len=%d" % max_len, "-print_final_stats=0",
                    "-artifact_prefix=" + out + "/"]
            if runs:
                args.append("-runs=%d" % runs)
            if seconds:
                args.append("-max_total_time=%d" % seconds)
            args.append(corpus)
            env = dict(os.environ, FUZZ_KIND=kind, FUZZ_OUT=out)
            p = subprocess.Popen(args, env=env, stdout=subprocess.DEVNULL,
                                 stderr=subprocess.DEVNULL, cwd=out)
            procs.append((kind, variant, out, corpus, p))
    for kind, variant, out, corpus, p in procs:
        try:
            p.wait(timeout=(seconds or 600) + 600)
        except subprocess.TimeoutExpired:
            p.kill()
            ctx.notes.append("atheris %s/%s killed after timeout" % (kind,
                                                                   variant))
        execs = 0
        for sf in glob.glob(os.path.join(out, "stats-*.json")):
            with open(sf) as f:
                st = json.load(f)
            execs += st.get("execs", 0)
            for k, v in st.items():
                ctx.count("atheris.%s.%s" % (kind, k), v)
        ctx.evaluations += execs
        # distinct inputs kept by libFuzzer (each adds coverage): classify
        deep = 0
        files = [f for f in glob.glob(os.path.join(corpus, "*"))
                 if not os.path.basename(f).startswith("seed")]
        for fpath in files:
            with open(fpath, "rb") as f:
                data = f.read()
            try:
                if deep_fn(kind, data):
                    deep += 1
            except Exception:
                pass
        ctx.nt_extra += deep
        ctx.count("atheris.%s.corpus_%s" % (kind, variant), len(files))
        for vf in glob.glob(os.path.join(out, "violation-*.json")):
            with open(vf) as f:
                v = json.load(f)
            ctx.violations.append({"sub": v["subcheck"], "case": v["case"],
                                   "message": "[atheris %s/%s] %s" % (
                                       kind, variant, v["message"])})
    ctx.sample({"atheris": [k for k in kinds], "variants": ["empty corpus",
                                                            "valid seeds"]})
    ctx.rmtree(base)
