"""Loopback static file server implementing exactly the serving rules that
docs/serving-data.rst prescribes, plus a deterministic per-request fault
script.

Rules (nginx configuration of the documentation):
  * flat chunk URLs  <key>/<x>-<X>_<y>-<Y>_<z>-<Z>  are mapped to the deep
    path <key>/<x>-<X>/<y>-<Y>/<z>-<Z> when `rewrite` is on (deep layout)
  * gzip_static always: if <file>.gz exists it is served with
    "Content-Encoding: gzip", otherwise <file> is served as is
  * URLs ending in ":0" fall back to <name>.json and <name>
  * Range requests are answered with 206 + Content-Range (single ranges);
    shard files are served without any Content-Encoding
  * HEAD is supported
"""
import http.server
import os
import re
import socket
import threading
import urllib.parse

_FLAT = re.compile(r"^(.*)/([0-9]+-[0-9]+)_([0-9]+-[0-9]+)_([0-9]+-[0-9]+)$")


class Fault:
    """behaviour for the k-th request (0-based) of the server's life."""
    KINDS = ("404", "500", "503", "403", "500_samelen", "404_samelen",
             "short_body", "long_200",
             "wrong_range", "close_before", "close_after_headers",
             "empty_200")

    def __init__(self, k, kind):
        self.k = k
        self.kind = kind


class _Handler(http.server.BaseHTTPRequestHandler):
    protocol_version = "HTTP/1.1"

    def log_message(self, *a):
        pass

    def _resolve(self, path):
        srv = self.server
        path = urllib.parse.unquote(urllib.parse.urlsplit(path).path)
        rel = path.lstrip("/")
        if ".." in rel.split("/"):
            return None, None
        if srv.rewrite:
            m = _FLAT.match(rel)
            if m:
                rel = "%s/%s/%s/%s" % m.groups()
        cands = [rel]
        if rel.endswith(":0"):
            cands += [rel[:-2] + ".json", rel[:-2]]
        for c in cands:
            p = os.path.join(srv.root, c)
            if os.path.isfile(p + ".gz"):
                return p + ".gz", "gzip"
            if os.path.isfile(p):
                return p, None
        return None, None

    def _serve(self, head):
        srv = self.server
        with srv.lock:
            k = srv.count
            srv.count += 1
            srv.log.append((self.command, self.path,
                            self.headers.get("Range")))
        fault = srv.faults.get(k)
        kind = fault.kind if fault else None
        if kind == "close_before":
            try:
                self.connection.shutdown(socket.SHUT_RDWR)
            except OSError:
                pass
            self.close_connection = True
            return
        if kind in ("404", "500", "503", "403", "500_samelen",
                    "404_samelen") or (kind and kind.isdigit()
                                       and 400 <= int(kind) <= 599):
            body = b"injected error"
            if kind.endswith("_samelen"):
                # worst case: the error document is exactly as long as the
                # requested byte range
                kind = kind[:3]
                m = re.match(r"bytes=(\d+)-(\d+)$",
                             (self.headers.get("Range") or "").strip())
                if m:
                    n = int(m.group(2)) - int(m.group(1)) + 1
                    body = (b"error document " * (n // 15 + 1))[:n]
            self.send_response(int(kind))
            self.send_header("Content-Length", str(len(body)))
            self.end_headers()
            if not head:
                self.wfile.write(body)
            return
        path, enc = self._resolve(self.path)
        if path is None:
            body = b"not found"
            self.send_response(404)
            self.send_header("Content-Length", str(len(body)))
            self.end_headers()
            if not head:
                self.wfile.write(body)
            return
        with open(path, "rb") as f:
            data = f.read()
        total = len(data)
        rng = self.headers.get("Range")
        status = 200
        start, end = 0, total - 1
        if rng and enc is None and kind != "long_200":
            m = re.match(r"bytes=(\d+)-(\d*)$", rng.strip())
            if m:
                start = int(m.group(1))
                end = int(m.group(2)) if m.group(2) else total - 1
                end = min(end, total - 1)
                if start > end or start >= total:
                    self.send_response(416)
                    self.send_header("Content-Range", "bytes */%d" % total)
                    self.send_header("Content-Length", "0")
                    self.end_headers()
                    return
                status = 206
        body = data[start:end + 1] if status == 206 else data
        if kind == "empty_200":
            body = b""
            status = 200
        declared = len(body)
        if kind == "short_body" and len(body) > 1:
            body = body[:len(body) // 2]
            declared = len(body)      # a complete but shorter reply
        self.send_response(status)
        self.send_header("Content-Type", "application/octet-stream")
        if enc:
            self.send_header("Content-Encoding", enc)
        if status == 206:
            if kind == "wrong_range":
                self.send_header("Content-Range", "bytes %d-%d/%d" % (
                    0, end - start, total))
                body = data[0:end - start + 1]
                declared = len(body)
            else:
                self.send_header("Content-Range", "bytes %d-%d/%d" % (
                    start, end, total))
        self.send_header("Accept-Ranges", "bytes")
        self.send_header("Content-Length", str(declared))
        self.end_headers()
        if kind == "close_after_headers":
            self.wfile.flush()
            try:
                self.connection.shutdown(socket.SHUT_RDWR)
            except OSError:
                pass
            self.close_connection = True
            return
        if not head:
            self.wfile.write(body)

    def do_GET(self):
        self._serve(False)

    def do_HEAD(self):
        self._serve(True)


class StaticServer:
    def __init__(self, root, rewrite=True, faults=()):
        self.httpd = http.server.ThreadingHTTPServer(("127.0.0.1", 0),
                                                     _Handler)
        self.httpd.daemon_threads = True
        self.httpd.root = root
        self.httpd.rewrite = rewrite
        self.httpd.faults = {f.k: f for f in faults}
        self.httpd.count = 0
        self.httpd.log = []
        self.httpd.lock = threading.Lock()
        self.thread = threading.Thread(target=self.httpd.serve_forever,
                                       kwargs={"poll_interval": 0.05},
                                       daemon=True)
        self.thread.start()
        self.port = self.httpd.server_address[1]

    @property
    def url(self):
        return "http://127.0.0.1:%d/" % self.port

    @property
    def requests(self):
        return list(self.httpd.log)

    @property
    def count(self):
        return self.httpd.count

    def set_faults(self, faults):
        self.httpd.faults = {f.k: f for f in faults}

    def reset_count(self):
        with self.httpd.lock:
            self.httpd.count = 0
            self.httpd.log = []

    def close(self):
        self.httpd.shutdown()
        self.httpd.server_close()
        self.thread.join(timeout=5)

    def __enter__(self):
        return self

    def __exit__(self, *a):
        self.close()
