"""Exact block statistics (independent reference for the downscalers).

Arrays are nested Python lists indexed [c][z][y][x] holding exact Python
numbers.  Factors are (fx, fy, fz) as in the package's API.
"""
from fractions import Fraction


def ceil_div(a, b):
    return -(-a // b)


def out_shape(shape, factors):
    c, z, y, x = shape
    fx, fy, fz = factors
    return (c, ceil_div(z, fz), ceil_div(y, fy), ceil_div(x, fx))


def block_values(arr, shape, factors, c, oz, oy, ox, mode, outside=None):
    """Contributing values of output voxel (c, oz, oy, ox).

    mode 'edge'     : positions beyond the border take the edge value
    mode 'constant' : positions beyond the border take `outside`
    mode 'truncate' : positions beyond the border are dropped
    """
    _, Z, Y, X = shape
    fx, fy, fz = factors
    vals = []
    for dz in range(fz):
        for dy in range(fy):
            for dx in range(fx):
                z, y, x = oz * fz + dz, oy * fy + dy, ox * fx + dx
                if z < Z and y < Y and x < X:
                    vals.append(arr[c][z][y][x])
                elif mode == "truncate":
                    continue
                elif mode == "constant":
                    vals.append(outside)
                else:
                    vals.append(arr[c][min(z, Z - 1)][min(y, Y - 1)]
                                [min(x, X - 1)])
    return vals


def mean(vals):
    return sum(Fraction(v) for v in vals) / len(vals)


def majority(vals):
    counts = {}
    for v in vals:
        counts[v] = counts.get(v, 0) + 1
    best = max(counts.values())
    return min(v for v, n in counts.items() if n == best)
