"""Parser of the Neuroglancer precomputed (legacy single-resolution) mesh
fragment layout, written from the format description:

    uint32le num_vertices
    float32le[num_vertices][3]   vertex positions (x, y, z) in nanometres
    uint32le[num_triangles][3]   vertex indices, until the end of the file
"""
import struct


class MeshSpecError(Exception):
    pass


def parse(buf):
    buf = bytes(buf)
    if len(buf) < 4:
        raise MeshSpecError("shorter than the vertex count")
    (n,) = struct.unpack_from("<I", buf, 0)
    vend = 4 + 12 * n
    if len(buf) < vend:
        raise MeshSpecError("vertex data truncated")
    if (len(buf) - vend) % 12:
        raise MeshSpecError("triangle data is not a whole number of triangles")
    flat = struct.unpack_from("<%df" % (3 * n), buf, 4)
    verts = [tuple(flat[3 * i:3 * i + 3]) for i in range(n)]
    m = (len(buf) - vend) // 12
    tflat = struct.unpack_from("<%dI" % (3 * m), buf, vend)
    tris = [tuple(tflat[3 * i:3 * i + 3]) for i in range(m)]
    for t in tris:
        for i in t:
            if i >= n:
                raise MeshSpecError("triangle references vertex %d of %d"
                                    % (i, n))
    return n, verts, tris
