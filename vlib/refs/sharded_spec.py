"""Reader / validator / writer for the neuroglancer_uint64_sharded_v1 format,
written only from the specification (neuroglancer datasource/precomputed/
sharded.md).  Shares no code with the package.

  chunk id -> hashed = identity(id >> preshift_bits)
           -> minishard = hashed & (2^minishard_bits - 1)
           -> shard     = (hashed >> minishard_bits) & (2^shard_bits - 1)
  file <shard as lower-case hex, zero padded to ceil(shard_bits/4)>.shard
  shard index : 2^minishard_bits entries of (start, end) uint64le, byte
                offsets relative to the END of the shard index, delimiting the
                (encoded) minishard index; start == end means "empty"
  minishard index (after decoding): uint64le array [3, n]:
     row 0  chunk ids, delta encoded (strictly increasing ids)
     row 1  start offsets, delta encoded relative to the end of the previous
            chunk (the first one relative to the end of the shard index)
     row 2  sizes in bytes
  legacy layout: <shard>.index holds the shard index, <shard>.data the rest
"""
import gzip
import os
import struct
import zlib

from vlib.refs import morton


class ShardSpecError(Exception):
    pass


class NotGzip(ShardSpecError):
    """Data declared as "gzip" is not an RFC 1952 stream (but inflates as a
    zlib/RFC 1950 stream)."""


def decode(buf, encoding, strict_gzip=True):
    if encoding == "raw":
        return buf
    if encoding != "gzip":
        raise ShardSpecError("unknown encoding %r" % encoding)
    try:
        return gzip.decompress(buf)
    except Exception:
        pass
    try:
        out = zlib.decompress(buf)
    except Exception as exc:
        raise ShardSpecError("gzip-encoded data does not inflate: %s" % exc)
    if strict_gzip:
        raise NotGzip("declared gzip, found a zlib (RFC 1950) stream")
    return out


def encode(buf, encoding):
    if encoding == "raw":
        return buf
    return gzip.compress(buf, mtime=0)


def file_bytes(scale_dir, params, shard):
    """(index_bytes, rest_bytes, layout) of a shard, or None if absent."""
    stem = morton.shard_file_stem(shard, params["shard_bits"])
    p = os.path.join(scale_dir, stem + ".shard")
    ilen = 16 * 2 ** params["minishard_bits"]
    if os.path.isfile(p):
        with open(p, "rb") as f:
            data = f.read()
        if len(data) < ilen:
            raise ShardSpecError("%s shorter than its shard index" % p)
        return data[:ilen], data[ilen:], "shard"
    pi, pd = (os.path.join(scale_dir, stem + ".index"),
              os.path.join(scale_dir, stem + ".data"))
    if os.path.isfile(pi) and os.path.isfile(pd):
        with open(pi, "rb") as f:
            idx = f.read()
        with open(pd, "rb") as f:
            dat = f.read()
        if len(idx) != ilen:
            raise ShardSpecError("%s has the wrong length" % pi)
        return idx, dat, "legacy"
    return None


def minishard_entries(index, rest, params, minishard, strict_gzip=True):
    """[(chunk id, offset in `rest`, size)] of one minishard."""
    start, end = struct.unpack_from("<QQ", index, 16 * minishard)
    if start == end:
        return []
    if start > end or end > len(rest):
        raise ShardSpecError("minishard %d index range [%d,%d) outside the "
                             "file (%d bytes after the shard index)" % (
                                 minishard, start, end, len(rest)))
    raw = decode(rest[start:end], params["minishard_index_encoding"],
                 strict_gzip)
    if len(raw) % 24:
        raise ShardSpecError("minishard index length %d is not a multiple of "
                             "24" % len(raw))
    n = len(raw) // 24
    vals = struct.unpack("<%dQ" % (3 * n), raw)
    out = []
    cid = 0
    pos = 0
    for i in range(n):
        cid = (cid + vals[i]) % 2 ** 64
        pos = pos + vals[n + i]
        size = vals[2 * n + i]
        out.append((cid, pos, size))
        pos += size
    return out


def read(scale_dir, params, chunk_id, strict_gzip=True):
    """Bytes stored for chunk_id, or None when the format says it is absent."""
    shard, minishard = morton.route(chunk_id, params["preshift_bits"],
                                    params["minishard_bits"],
                                    params["shard_bits"])
    fb = file_bytes(scale_dir, params, shard)
    if fb is None:
        return None
    index, rest, _ = fb
    for cid, pos, size in minishard_entries(index, rest, params, minishard,
                                           strict_gzip):
        if cid == chunk_id:
            if pos + size > len(rest):
                raise ShardSpecError("chunk %d data [%d,%d) outside the file"
                                     % (chunk_id, pos, pos + size))
            return decode(rest[pos:pos + size], params["data_encoding"],
                          strict_gzip) if size else b""
    return None


def validate_shard(scale_dir, params, shard, strict_gzip=True):
    """Structural validation of one shard; returns
    {minishard: [(id, pos, size)]}."""
    fb = file_bytes(scale_dir, params, shard)
    if fb is None:
        raise ShardSpecError("shard %d not found" % shard)
    index, rest, _ = fb
    ranges = []
    out = {}
    for m in range(2 ** params["minishard_bits"]):
        start, end = struct.unpack_from("<QQ", index, 16 * m)
        entries = minishard_entries(index, rest, params, m, strict_gzip)
        if start != end:
            ranges.append((start, end, "minishard index %d" % m))
        last = None
        for cid, pos, size in entries:
            if last is not None and cid <= last:
                raise ShardSpecError("minishard %d: ids not strictly "
                                     "increasing (%d after %d)" % (m, cid,
                                                                   last))
            last = cid
            s, mm = morton.route(cid, params["preshift_bits"],
                                 params["minishard_bits"],
                                 params["shard_bits"])
            if (s, mm) != (shard, m):
                raise ShardSpecError("chunk %d is filed under shard %d "
                                     "minishard %d but belongs to shard %d "
                                     "minishard %d" % (cid, shard, m, s, mm))
            if pos + size > len(rest):
                raise ShardSpecError("chunk %d data [%d,%d) outside the file"
                                     % (cid, pos, pos + size))
            if size:
                ranges.append((pos, pos + size, "chunk %d" % cid))
        if entries:
            out[m] = entries
    ranges.sort()
    for (a0, a1, an), (b0, b1, bn) in zip(ranges, ranges[1:]):
        if b0 < a1:
            raise ShardSpecError("%s [%d,%d) overlaps %s [%d,%d)" % (
                an, a0, a1, bn, b0, b1))
    return out


def write_shard(scale_dir, params, shard, chunks, legacy=False,
                index_first=False):
    """Writer (used to make foreign-but-valid and legacy shards).
    chunks: {chunk id: bytes}, all routed to `shard`."""
    mb = params["minishard_bits"]
    by_mini = {}
    for cid, data in chunks.items():
        s, m = morton.route(cid, params["preshift_bits"], mb,
                            params["shard_bits"])
        if s != shard:
            raise ValueError("chunk %d does not belong to shard %d" % (cid,
                                                                      shard))
        by_mini.setdefault(m, {})[cid] = data
    rest = bytearray()
    index = bytearray()
    encoded_indices = {}
    if index_first:
        # minishard indices precede the chunk data: also valid
        pass
    data_pos = {}
    for m in sorted(by_mini):
        for cid in sorted(by_mini[m]):
            enc = encode(by_mini[m][cid], params["data_encoding"])
            data_pos[cid] = (len(rest), len(enc))
            rest += enc
    for m in sorted(by_mini):
        ids = sorted(by_mini[m])
        row0, row1, row2 = [], [], []
        prev_id = 0
        prev_end = 0
        for cid in ids:
            pos, size = data_pos[cid]
            row0.append(cid - prev_id)
            row1.append(pos - prev_end)
            row2.append(size)
            prev_id = cid
            prev_end = pos + size
        raw = struct.pack("<%dQ" % (3 * len(ids)), *(row0 + row1 + row2))
        enc = encode(raw, params["minishard_index_encoding"])
        encoded_indices[m] = (len(rest), len(rest) + len(enc))
        rest += enc
    for m in range(2 ** mb):
        if m in encoded_indices:
            index += struct.pack("<QQ", *encoded_indices[m])
        else:
            index += struct.pack("<QQ", 0, 0)
    os.makedirs(scale_dir, exist_ok=True)
    stem = morton.shard_file_stem(shard, params["shard_bits"])
    if legacy:
        with open(os.path.join(scale_dir, stem + ".index"), "wb") as f:
            f.write(index)
        with open(os.path.join(scale_dir, stem + ".data"), "wb") as f:
            f.write(rest)
    else:
        with open(os.path.join(scale_dir, stem + ".shard"), "wb") as f:
            f.write(bytes(index) + bytes(rest))
