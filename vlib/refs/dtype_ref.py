"""Exact reference for numeric type conversion (independent of the package).

convert_value(v, out) takes the exact value of an input element (Python int or
Python float, both exact) and returns the set of acceptable results for the
target type `out` (a NumPy dtype name), as Python ints / floats:

  integer targets: the value rounded half-to-even and clamped to the type range
  float32 target : the nearest float32 (both neighbours accepted on an exact tie)
"""
from fractions import Fraction

import numpy as np

INT_RANGE = {
    "uint8": (0, 2 ** 8 - 1), "uint16": (0, 2 ** 16 - 1),
    "uint32": (0, 2 ** 32 - 1), "uint64": (0, 2 ** 64 - 1),
    "int8": (-2 ** 7, 2 ** 7 - 1), "int16": (-2 ** 15, 2 ** 15 - 1),
    "int32": (-2 ** 31, 2 ** 31 - 1), "int64": (-2 ** 63, 2 ** 63 - 1),
}


def round_half_even(fr):
    """Fraction -> int, ties to even."""
    fl = fr.numerator // fr.denominator
    rem = fr - fl
    if rem > Fraction(1, 2):
        return fl + 1
    if rem < Fraction(1, 2):
        return fl
    return fl if fl % 2 == 0 else fl + 1


def to_int_type(v, out):
    lo, hi = INT_RANGE[out]
    r = round_half_even(Fraction(v))
    return min(max(r, lo), hi)


_F32_MAX = float(np.finfo(np.float32).max)


def nearest_float32(v):
    """Set of float32 values (as Python floats) nearest to exact value v."""
    fr = Fraction(v)
    if abs(fr) > Fraction(_F32_MAX):
        raise OverflowError("beyond float32 range")
    # a starting guess, then examine its neighbours exactly
    g = np.float32(float(fr)) if abs(fr) < 2 ** 1000 else np.float32(0)
    cands = {float(g)}
    for direction in (-np.inf, np.inf):
        n = np.nextafter(g, np.float32(direction))
        if np.isfinite(n):
            cands.add(float(n))
            n2 = np.nextafter(n, np.float32(direction))
            if np.isfinite(n2):
                cands.add(float(n2))
    best = min(abs(Fraction(c) - fr) for c in cands)
    return {c for c in cands if abs(Fraction(c) - fr) == best}


def convert_value(v, out):
    if out == "float32":
        return nearest_float32(v)
    return {to_int_type(v, out)}


def convert_array(values, out):
    """values: iterable of exact Python numbers -> list of acceptable sets."""
    return [convert_value(v, out) for v in values]
