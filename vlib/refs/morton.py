"""Compressed Morton code and shard routing with Python ints, written from the
Neuroglancer precomputed volume / sharded format specifications."""


def bits_for(grid_size):
    """ceil(log2(grid_size)) for grid_size >= 1."""
    return (grid_size - 1).bit_length()


def grid_of(size, chunk):
    return [-(-s // c) for s, c in zip(size, chunk)]


def compressed_morton_code(pos, grid):
    bits = [bits_for(g) for g in grid]
    code = 0
    j = 0
    for i in range(max(bits) if bits else 0):
        for d in range(3):
            if i < bits[d]:
                code |= ((pos[d] >> i) & 1) << j
                j += 1
    return code


def total_bits(grid):
    return sum(bits_for(g) for g in grid)


def route(chunk_id, preshift_bits, minishard_bits, shard_bits):
    """(shard number, minishard number) for the identity hash."""
    hashed = chunk_id >> preshift_bits
    minishard = hashed & ((1 << minishard_bits) - 1)
    shard = (hashed >> minishard_bits) & ((1 << shard_bits) - 1)
    return shard, minishard


def shard_file_stem(shard, shard_bits):
    digits = -(-shard_bits // 4)
    return format(shard, "x").rjust(digits, "0")
