"""Line grammar of the legacy-VTK ASCII subset accepted by Neuroglancer's
datasource/vtk/parse.ts (as of the commit cited by the package,
a8ce681660864ab3ac7c1086c0b4262e40f24707).  Written from memory of that file
(it cannot be fetched offline) - part of the trusted base of C17:

  * the header must match, within the first 1000 bytes,
      # vtk DataFile Version <x>\\n<one title line>\\n(ASCII|BINARY)\\nDATASET <type>\\n
    and only ASCII + POLYDATA are supported
  * then lines, blank ones ignored:
      POINTS n <type>        followed by n lines of exactly 3 numbers
      POLYGONS m <4m>        followed by m lines "3 a b c"
      POINT_DATA n           n must equal the number of points
      SCALARS name type [k]  followed by "LOOKUP_TABLE name" and n lines of
                             exactly k numbers (k defaults to 1)
"""
import re


class GrammarError(Exception):
    pass


_HEADER = re.compile(
    r"^[ \t]*#[ \t]+vtk[ \t]+DataFile[ \t]+Version[ \t]+([^\s]+)[ \t]*\n"
    r"(.*)\n[ \t]*(ASCII|BINARY)[ \t]*\n[ \t]*DATASET[ \t]+([^ ]+)[ \t]*\n")
_POINTS = re.compile(r"^[ \t]*POINTS[ \t]+([0-9]+)[ \t]+([^\s]+)[ \t]*$")
_POLYGONS = re.compile(r"^[ \t]*POLYGONS[ \t]+([0-9]+)[ \t]+([0-9]+)[ \t]*$")
_POINT_DATA = re.compile(r"^[ \t]*POINT_DATA[ \t]+([0-9]+)[ \t]*$")
_SCALARS = re.compile(r"^[ \t]*SCALARS[ \t]+([^\s]+)[ \t]+([^\s]+)"
                      r"(?:[ \t]+([0-9]+))?[ \t]*$")
_LOOKUP = re.compile(r"^[ \t]*LOOKUP_TABLE[ \t]+([^\s]+)[ \t]*$")
_TRIANGLE = re.compile(r"^[ \t]*3[ \t]+([0-9]+)[ \t]+([0-9]+)[ \t]+([0-9]+)"
                       r"[ \t]*$")
_BLANK = re.compile(r"^[ \t]*$")
# what JavaScript's parseFloat consumes completely
_NUMBER = re.compile(r"^[-+]?(?:\d+\.?\d*|\.\d+)(?:[eE][-+]?\d+)?$")


def _numbers(line, k, what):
    toks = line.split()
    if len(toks) != k:
        raise GrammarError("%s: expected %d numbers, got %r" % (what, k, line))
    out = []
    for t in toks:
        if not _NUMBER.match(t):
            raise GrammarError("%s: %r is not a number" % (what, t))
        out.append(float(t))
    return out


def parse(text):
    head = text.encode("utf-8")[:1000].decode("utf-8", errors="ignore")
    m = _HEADER.match(head)
    if not m:
        raise GrammarError("header does not match within the first 1000 "
                           "bytes")
    if m.group(3) != "ASCII":
        raise GrammarError("only ASCII is supported")
    if m.group(4).strip() != "POLYDATA":
        raise GrammarError("only POLYDATA is supported")
    # the header was matched on a prefix; the same text starts the full file
    lines = text[m.end():].split("\n")
    i = 0
    points = None
    triangles = None
    point_data = None
    attributes = []

    def next_line():
        nonlocal i
        if i >= len(lines):
            raise GrammarError("unexpected end of file")
        line = lines[i]
        i += 1
        return line
    while i < len(lines):
        line = next_line()
        if _BLANK.match(line):
            continue
        mm = _POINTS.match(line)
        if mm:
            if points is not None:
                raise GrammarError("POINTS given twice")
            n = int(mm.group(1))
            points = [_numbers(next_line(), 3, "point") for _ in range(n)]
            continue
        mm = _POLYGONS.match(line)
        if mm:
            if triangles is not None:
                raise GrammarError("POLYGONS given twice")
            nt, size = int(mm.group(1)), int(mm.group(2))
            if size != 4 * nt:
                raise GrammarError("POLYGONS size %d != 4*%d" % (size, nt))
            triangles = []
            for _ in range(nt):
                tm = _TRIANGLE.match(next_line())
                if not tm:
                    raise GrammarError("bad triangle line %r" % lines[i - 1])
                triangles.append(tuple(int(g) for g in tm.groups()))
            continue
        mm = _POINT_DATA.match(line)
        if mm:
            point_data = int(mm.group(1))
            if points is None or point_data != len(points):
                raise GrammarError("POINT_DATA count does not match POINTS")
            continue
        mm = _SCALARS.match(line)
        if mm:
            if point_data is None:
                raise GrammarError("SCALARS before POINT_DATA")
            k = int(mm.group(3)) if mm.group(3) else 1
            if not 1 <= k <= 4:
                raise GrammarError("SCALARS with %d components" % k)
            if not _LOOKUP.match(next_line()):
                raise GrammarError("LOOKUP_TABLE line missing")
            vals = [_numbers(next_line(), k, "attribute")
                    for _ in range(point_data)]
            attributes.append((mm.group(1), k, vals))
            continue
        raise GrammarError("unrecognised line %r" % line)
    if points is None or triangles is None:
        raise GrammarError("POINTS or POLYGONS missing")
    for t in triangles:
        if any(v >= len(points) for v in t):
            raise GrammarError("triangle references a missing vertex")
    return {"points": points, "triangles": triangles,
            "attributes": attributes, "title": m.group(2)}
