"""compressed_segmentation reference, written only from the published format
description (neuroglancer: sliceview/compressed_segmentation/README.md).

Layout recap (all integers little-endian):
  file    = num_channels uint32 offsets (in 4-byte units, from the start of
            the file) followed by the channel payloads
  channel = header of gx*gy*gz 8-byte block headers, block (x,y,z) of the grid
            at index x + gx*(y + gy*z); offsets inside a channel are in 4-byte
            units relative to the start of that channel's header
  block header = uint32 (lookup_table_offset | encoded_bits << 24),
                 uint32 encoded_values_offset
  encoded values: voxel (x,y,z) of the block has index i = x + bx*(y + by*z);
            it occupies `bits` bits starting at bit (i % (32/bits))*bits of the
            32-bit word number i // (32/bits)
  lookup table: entries of the label type (uint64 = two words, low first)

Arrays are NumPy arrays (C, Z, Y, X) only at the API boundary; all parsing is
done with Python ints on the byte string.
"""
import struct

import numpy as np

VALID_BITS = (0, 1, 2, 4, 8, 16, 32)


class SpecError(Exception):
    pass


def ceil_div(a, b):
    return -(-a // b)


def _u32(buf, byte_off):
    if byte_off < 0 or byte_off + 4 > len(buf):
        raise SpecError("read of 32-bit word at byte %d beyond the file "
                        "(%d bytes)" % (byte_off, len(buf)))
    return struct.unpack_from("<I", buf, byte_off)[0]


def decode(buf, shape, block_size, dtype, only=None):
    """Decode `buf` into an array of `shape` (C, Z, Y, X).  Raises SpecError
    if the data is not well formed.  Reads only what a conforming reader needs
    (voxels inside the volume).  `only`: set of flat block indices
    (x + gx*(y + gy*z)) to decode in every channel - the other blocks stay 0
    (for very large chunks, where this pure-Python reader samples)."""
    buf = bytes(buf)
    C, Z, Y, X = shape
    bx, by, bz = block_size
    words = 2 if np.dtype(dtype).itemsize == 8 else 1
    gx, gy, gz = ceil_div(X, bx), ceil_div(Y, by), ceil_div(Z, bz)
    out = np.zeros(shape, dtype=np.dtype(dtype))
    if len(buf) % 4:
        raise SpecError("file length %d is not a multiple of 4" % len(buf))
    for c in range(C):
        base = 4 * _u32(buf, 4 * c)
        if base < 4 * C:
            raise SpecError("channel %d data starts inside the channel "
                            "offset table" % c)
        for gzi in range(gz):
            for gyi in range(gy):
                for gxi in range(gx):
                    if only is not None and (
                            gxi + gx * (gyi + gy * gzi)) not in only:
                        continue
                    h = base + 8 * (gxi + gx * (gyi + gy * gzi))
                    w0 = _u32(buf, h)
                    w1 = _u32(buf, h + 4)
                    bits = w0 >> 24
                    toff = base + 4 * (w0 & 0xFFFFFF)
                    voff = base + 4 * w1
                    if bits not in VALID_BITS:
                        raise SpecError("block (%d,%d,%d): encoded_bits=%d"
                                        % (gxi, gyi, gzi, bits))
                    per_word = 32 // bits if bits else 0
                    mask = (1 << bits) - 1
                    cache = {}
                    for z in range(min(bz, Z - gzi * bz)):
                        for y in range(min(by, Y - gyi * by)):
                            for x in range(min(bx, X - gxi * bx)):
                                if bits == 0:
                                    idx = 0
                                else:
                                    i = x + bx * (y + by * z)
                                    w = _u32(buf, voff + 4 * (i // per_word))
                                    idx = (w >> ((i % per_word) * bits)) & mask
                                v = cache.get(idx)
                                if v is None:
                                    a = toff + 4 * words * idx
                                    v = _u32(buf, a)
                                    if words == 2:
                                        v |= _u32(buf, a + 4) << 32
                                    cache[idx] = v
                                out[c, gzi * bz + z, gyi * by + y,
                                    gxi * bx + x] = v
    return out


def decode_corner(buf, shape, block_size, dtype, flat_block, n, channel=0):
    """The n x n x n voxels at the origin of block `flat_block` of `channel`
    (for chunks too large to decode completely in pure Python)."""
    buf = bytes(buf)
    C, Z, Y, X = shape
    bx, by, bz = block_size
    words = 2 if np.dtype(dtype).itemsize == 8 else 1
    base = 4 * _u32(buf, 4 * channel)
    h = base + 8 * flat_block
    w0 = _u32(buf, h)
    w1 = _u32(buf, h + 4)
    bits = w0 >> 24
    if bits not in VALID_BITS:
        raise SpecError("block %d: encoded_bits=%d" % (flat_block, bits))
    toff = base + 4 * (w0 & 0xFFFFFF)
    voff = base + 4 * w1
    per_word = 32 // bits if bits else 0
    mask = (1 << bits) - 1
    out = np.zeros((n, n, n), dtype=np.dtype(dtype))
    for z in range(n):
        for y in range(n):
            for x in range(n):
                if bits == 0:
                    idx = 0
                else:
                    i = x + bx * (y + by * z)
                    w = _u32(buf, voff + 4 * (i // per_word))
                    idx = (w >> ((i % per_word) * bits)) & mask
                a = toff + 4 * words * idx
                v = _u32(buf, a)
                if words == 2:
                    v |= _u32(buf, a + 4) << 32
                out[z, y, x] = v
    return out


def validate(buf, shape, block_size, dtype):
    """Structural checks beyond what decode() needs: alignment, every offset a
    reader may follow lies inside the file, table offsets fit in 24 bits (by
    construction of the header), headers do not overlap the offset table.
    Returns a dict of statistics (bit-width histogram)."""
    buf = bytes(buf)
    C, Z, Y, X = shape
    bx, by, bz = block_size
    gx, gy, gz = ceil_div(X, bx), ceil_div(Y, by), ceil_div(Z, bz)
    nvox = bx * by * bz
    stats = {}
    if len(buf) % 4:
        raise SpecError("file length %d is not a multiple of 4" % len(buf))
    if len(buf) < 4 * C:
        raise SpecError("file shorter than the channel offset table")
    for c in range(C):
        base = 4 * _u32(buf, 4 * c)
        if base < 4 * C:
            raise SpecError("channel %d offset points into the offset table"
                            % c)
        if base + 8 * gx * gy * gz > len(buf):
            raise SpecError("channel %d block headers run past the end" % c)
        for b in range(gx * gy * gz):
            w0 = _u32(buf, base + 8 * b)
            w1 = _u32(buf, base + 8 * b + 4)
            bits = w0 >> 24
            if bits not in VALID_BITS:
                raise SpecError("block %d: encoded_bits=%d" % (b, bits))
            stats[bits] = stats.get(bits, 0) + 1
            if bits:
                end = base + 4 * w1 + 4 * ceil_div(nvox * bits, 32)
                if end > len(buf):
                    raise SpecError("block %d: encoded values run past the "
                                    "end of the file" % b)
            if base + 4 * (w0 & 0xFFFFFF) >= len(buf):
                raise SpecError("block %d: lookup table starts past the end"
                                % b)
    return stats


# ---------------------------------------------------------------------------
# encoder producing alternative valid layouts (used by C10: "valid data is
# never rejected")
# ---------------------------------------------------------------------------

def _min_bits(n):
    for b in VALID_BITS:
        if 2 ** b >= n:
            return b
    raise SpecError("too many labels")


def encode(chunk, block_size, order="tv", share=True, bump_bits=False,
           reverse_table=False, global_table=False):
    """Encode chunk (C,Z,Y,X; uint32/uint64).

    order        'tv' table then values, 'vt' values then table
    share        re-use an identical table written earlier
    bump_bits    use the next larger allowed bit width (table padded to full)
    reverse_table  store the palette in decreasing order
    global_table  one table per channel holding every label of the channel;
                  every block points at its start and uses the smallest bit
                  width that reaches the largest index it needs (so blocks
                  share one table offset with different bit widths)
    """
    chunk = np.asarray(chunk)
    C, Z, Y, X = chunk.shape
    bx, by, bz = block_size
    words = 2 if chunk.dtype.itemsize == 8 else 1
    gx, gy, gz = ceil_div(X, bx), ceil_div(Y, by), ceil_div(Z, bz)
    out = bytearray(4 * C)
    for c in range(C):
        struct.pack_into("<I", out, 4 * c, len(out) // 4)
        ch = bytearray(8 * gx * gy * gz)
        tables = {}
        gpal = gindex = goff = None
        if global_table:
            gpal = sorted(set(int(v) for v in chunk[c].reshape(-1)),
                          reverse=reverse_table)
            gindex = {v: i for i, v in enumerate(gpal)}
            goff = len(ch) // 4
            ch.extend(b"".join(struct.pack("<Q" if words == 2 else "<I", v)
                               for v in gpal))
        for gzi in range(gz):
            for gyi in range(gy):
                for gxi in range(gx):
                    vals = []
                    for z in range(bz):
                        for y in range(by):
                            for x in range(bx):
                                zz = min(gzi * bz + z, Z - 1)
                                yy = min(gyi * by + y, Y - 1)
                                xx = min(gxi * bx + x, X - 1)
                                vals.append(int(chunk[c, zz, yy, xx]))
                    pal = sorted(set(vals), reverse=reverse_table)
                    bits = _min_bits(len(pal))
                    if global_table:
                        pal = gpal
                        bits = _min_bits(max(gindex[v] for v in vals) + 1)
                    elif bump_bits and bits < 16:
                        bits = VALID_BITS[VALID_BITS.index(bits) + 1]
                        pal = pal + [pal[-1]] * (2 ** bits - len(pal))
                    index = {}
                    for i, v in enumerate(pal):
                        index.setdefault(v, i)
                    tbytes = b"".join(
                        struct.pack("<Q" if words == 2 else "<I", v)
                        for v in pal)
                    vwords = []
                    if bits:
                        per = 32 // bits
                        cur = 0
                        for i, v in enumerate(vals):
                            cur |= index[v] << ((i % per) * bits)
                            if i % per == per - 1:
                                vwords.append(cur)
                                cur = 0
                        if len(vals) % per:
                            vwords.append(cur)
                    vbytes = b"".join(struct.pack("<I", w) for w in vwords)

                    def put_table():
                        if global_table:
                            return goff
                        if share and tbytes in tables:
                            return tables[tbytes]
                        off = len(ch) // 4
                        ch.extend(tbytes)
                        tables[tbytes] = off
                        return off
                    if order == "tv":
                        toff = put_table()
                        voff = len(ch) // 4
                        ch.extend(vbytes)
                    else:
                        voff = len(ch) // 4
                        ch.extend(vbytes)
                        toff = put_table()
                    if toff >= 2 ** 24:
                        raise SpecError("table offset does not fit 24 bits")
                    struct.pack_into("<II", ch,
                                     8 * (gxi + gx * (gyi + gy * gzi)),
                                     toff | (bits << 24), voff)
        out.extend(ch)
    return bytes(out)
