"""Index mapping for slice stacks, derived from the three orientation letters
only.

The code's first letter is the anatomical direction in which the COLUMN index
of a slice increases (left-to-right on screen), the second letter the
direction in which the ROW index increases (top-to-bottom), the third the
direction of increasing SLICE number.  Output voxels are in RAS+ order: x
increases towards Right, y towards Anterior, z towards Superior.
"""
AXIS = {"R": 0, "L": 0, "A": 1, "P": 1, "S": 2, "I": 2}
POSITIVE = {"R", "A", "S"}


def all_codes():
    import itertools
    out = []
    for t in itertools.product("LR", "AP", "IS"):
        for perm in itertools.permutations(t):
            out.append("".join(perm))
    return sorted(out)


def output_size(code, n_cols, n_rows, n_slices):
    n_in = (n_cols, n_rows, n_slices)
    size = [None, None, None]
    for i, letter in enumerate(code):
        size[AXIS[letter]] = n_in[i]
    return size


def source_index(code, n_cols, n_rows, n_slices, x, y, z):
    """(column, row, slice) of the input pixel shown at output voxel
    (x, y, z)."""
    n_in = (n_cols, n_rows, n_slices)
    out = (x, y, z)
    src = [None, None, None]
    for i, letter in enumerate(code):
        o = out[AXIS[letter]]
        src[i] = o if letter in POSITIVE else n_in[i] - 1 - o
    return tuple(src)
