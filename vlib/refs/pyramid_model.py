"""Per-axis model of the index arithmetic a correct 'two old pieces per new
chunk' pyramid assembly needs (DESIGN.md 4/C06).

axis_outcome(old_size, new_size, old_chunk, new_chunk) -> 'ok' | 'error' |
'wrong'

  ok     every new chunk along this axis is assembled from the right source
         voxels: factor inferred from the sizes, new size = ceil(old/f), old
         chunk divisible by f, each destination piece has exactly the length
         of the down-scaled source chunk, and the source offsets match
  error  a correct implementation cannot proceed (a NumPy assignment with
         incompatible shapes, division by zero, read of a chunk outside the
         grid)
  wrong  the arithmetic goes through but takes data from the wrong place
         (silent broadcast of an extent-1 piece, wrong source chunk)

The model is used (a) by C08 to state "compatible chunk sizes" and (b) by C06
as the must-succeed envelope: a transition whose three axes are all 'ok' must
be computed without error.  It is cross-validated against real runs in C06.
"""


def ceil_div(a, b):
    return -(-a // b)


def axis_outcome(old_size, new_size, old_chunk, new_chunk):
    """Envelope of the pyramid computation (after the repair of F16, which
    assembles each new chunk from all old chunks it covers): any pair of
    positive chunk sizes is fine; the sizes must be related by a factor 1 or
    2 with rounding up."""
    f = 1 if old_size == new_size else 2
    if new_size != ceil_div(old_size, f):
        return "error"
    if old_chunk < 1 or new_chunk < 1:
        return "error"
    return "ok"


def legacy_two_piece_outcome(old_size, new_size, old_chunk, new_chunk):
    """The envelope of the ORIGINAL implementation (two old pieces per new
    chunk and axis).  Kept as documentation of F16 and used by the self-test
    mutant that reverts the repair."""
    f = 1 if old_size == new_size else 2
    if new_size != ceil_div(old_size, f):
        return "error"
    half = old_chunk // f
    if half == 0:
        return "error"
    fetch = new_chunk // half
    n_new = ceil_div(new_size, new_chunk)
    n_old = ceil_div(old_size, old_chunk)
    worst = "ok"
    js = sorted({j for j in (0, 1, 2, n_new - 2, n_new - 1)
                 if 0 <= j < n_new})
    for j in js:
        L = min(new_chunk, new_size - j * new_chunk)
        pieces = [(0, min(half, L), j * fetch)]
        if L > half:
            pieces.append((half, L, j * fetch + 1))
        for d0, d1, src in pieces:
            if src >= n_old:
                return "error"
            src_len = ceil_div(min(old_chunk, old_size - src * old_chunk), f)
            if d1 - d0 != src_len:
                if src_len == 1 and d1 - d0 > 0:
                    worst = "wrong"      # NumPy broadcasts silently
                    continue
                return "error"
            if src * old_chunk != f * (j * new_chunk + d0):
                worst = "wrong"
    return worst


def transition_outcome(old_scale, new_scale):
    outs = [axis_outcome(old_scale["size"][a], new_scale["size"][a],
                         old_scale["chunk_sizes"][0][a],
                         new_scale["chunk_sizes"][0][a]) for a in range(3)]
    if all(o == "ok" for o in outs):
        return "ok", outs
    if any(o == "error" for o in outs):
        return "error", outs
    return "wrong", outs
