"""Writing NIfTI-1 inputs with exact control over the stored array and the
header scaling (slope / intercept)."""
import gzip
import struct

import nibabel as nib
import numpy as np

RGB_DTYPE = np.dtype([("R", "u1"), ("G", "u1"), ("B", "u1")])


def write_nifti(path, raw, affine, slope=None, inter=None,
                big_endian=False, xyz_units=None, xforms=None):
    """raw: array in nibabel (Fortran, X,Y,Z[,T]) index order with the stored
    dtype (or RGB_DTYPE).  The header scaling fields are patched in place so
    that the stored values stay exactly `raw`.  big_endian writes a
    big-endian file (header and data), as scanners / older tools do."""
    if big_endian and raw.dtype != RGB_DTYPE:
        hdr = nib.Nifti1Header(endianness=">")
        hdr.set_data_dtype(raw.dtype)
        img = nib.Nifti1Image(raw.astype(raw.dtype.newbyteorder(">")),
                              np.asarray(affine, dtype=float), header=hdr)
        assert img.header.endianness == ">"
    else:
        big_endian = False
        img = nib.Nifti1Image(raw, np.asarray(affine, dtype=float),
                              dtype=raw.dtype)
    img.header.set_data_dtype(raw.dtype)
    img.header.set_slope_inter(None, None)
    if xyz_units:
        # the declared spatial unit of the header ("mm", "micron", "meter";
        # nibabel writes "unknown" by default)
        img.header.set_xyzt_units(xyz=xyz_units)
    plain = path[:-3] if path.endswith(".gz") else path
    nib.save(img, plain)
    if slope is not None:
        with open(plain, "r+b") as f:
            f.seek(112)
            f.write(struct.pack(">ff" if big_endian else "<ff", slope,
                                0.0 if inter is None else inter))
    if xforms:
        # which of the two coordinate systems of the header carries the
        # affine (the header fields are patched in place):
        #   both_same    qform_code > 0 too, describing (nearly) the same
        #   both_differ  qform_code > 0 with ANOTHER placement (scanner space
        #                next to a template-space sform); the sform counts
        #   qform_only   sform_code = 0, the (shear-free) qform counts
        e = ">" if big_endian else "<"
        A = np.asarray(affine, dtype=float)
        B = A.copy()
        if xforms == "both_differ":
            # (other axis direction, other voxel sizes - pixdim then follows
            # the qform, not the sform - and another origin)
            B = A @ np.diag([-1.5, 1.0, 2.0, 1.0])
            B[:3, 3] = A[:3, 3] + [7.0, -11.0, 4.5]
        h = nib.Nifti1Header()
        h.set_data_shape(raw.shape if raw.dtype != RGB_DTYPE else raw.shape)
        h.set_qform(B, code=1)
        with open(plain, "r+b") as f:
            f.seek(76)
            f.write(struct.pack(e + "f", float(h["pixdim"][0])))
            if xforms in ("qform_only", "both_differ"):
                f.seek(80)
                f.write(struct.pack(e + "3f", *[float(v) for v in
                                                h["pixdim"][1:4]]))
            f.seek(252)
            f.write(struct.pack(e + "hh", 1,
                                0 if xforms == "qform_only" else 2))
            f.write(struct.pack(e + "6f", float(h["quatern_b"]),
                                float(h["quatern_c"]), float(h["quatern_d"]),
                                float(h["qoffset_x"]), float(h["qoffset_y"]),
                                float(h["qoffset_z"])))
    if path.endswith(".gz"):
        with open(plain, "rb") as f, gzip.open(path, "wb") as g:
            g.write(f.read())
        import os
        os.unlink(plain)
    return path


def load_checked(path, raw, slope=None, inter=None):
    """Precondition check: nibabel gives back the stored array and the header
    scaling.  Returns (img, ok)."""
    img = nib.load(path)
    got = np.asarray(img.dataobj.get_unscaled())
    same_type = got.dtype == raw.dtype or (
        raw.dtype.names is None and
        got.dtype.newbyteorder("=") == raw.dtype.newbyteorder("="))
    ok = got.shape == raw.shape and same_type and (
        got.astype(raw.dtype).tobytes() == np.asarray(raw).tobytes())
    if slope is not None:
        s = float(np.float32(slope))
        i = float(np.float32(0.0 if inter is None else inter))
        ok = ok and float(img.dataobj.slope) == s and float(
            img.dataobj.inter) == i
    else:
        ok = ok and float(img.dataobj.slope) == 1.0 and float(
            img.dataobj.inter) == 0.0
    return img, ok
