"""Shared runner: seeds, tiers, worker pool, Hypothesis glue, evidence/replay
writer, known-findings matcher.  See DESIGN.md section 2."""
import collections
import concurrent.futures
import functools
import hashlib
import json
import multiprocessing
import os
import shutil
import sys
import tempfile
import time
import traceback

VERIF = os.path.dirname(os.path.dirname(os.path.abspath(__file__)))

from vlib.jsonable import case_hash, from_jsonable, short, to_jsonable  # noqa


def set_case_environment(case):
    """Process-wide settings that no generator varies otherwise, derived from
    the case itself (so that shrinking and replay see the same environment):
    a third of the cases run with the package's loggers at DEBUG level (code
    guarded by `logger.isEnabledFor(DEBUG)` runs), the others at the library
    default; two fifths run under non-default NumPy print options."""
    import logging
    try:
        from vlib.jsonable import case_hash
        debug = case_hash(case) % 3 == 0
    except Exception:           # noqa
        debug = False
    logging.getLogger("neuroglancer_scripts").setLevel(
        logging.DEBUG if debug else logging.WARNING)
    # NumPy's process-wide print options (user scripts commonly set them;
    # str() of NumPy scalars follows the legacy mode)
    try:
        import numpy as np
        mode = case_hash(case) % 5
        if mode == 1:
            np.set_printoptions(legacy="1.13")
        elif mode == 2:
            np.set_printoptions(legacy=False, precision=3, suppress=True)
        else:
            np.set_printoptions(legacy=False, precision=8, suppress=False)
    except Exception:           # noqa
        pass
    return debug


class Violation(AssertionError):
    """The property is violated by the current case."""


class CaseTimeout(Violation):
    """A single generated case did not terminate (normal cases take
    milliseconds to a few seconds)."""


CASE_TIMEOUT_S = float(os.environ.get("VERIF_CASE_TIMEOUT", "90"))


# set by the alarm handler: the exception it raises may be caught and
# re-wrapped by the code under test or by a check's own error handling, so
# the wrappers below ask this flag, not the exception type
_ALARM = {"fired": False}


def _on_alarm(signum, frame):
    _ALARM["fired"] = True
    raise CaseTimeout("the case did not terminate within %.0f s (normal "
                      "cases take milliseconds); the code under test hangs"
                      % CASE_TIMEOUT_S)


class case_timer:
    """Per-case watchdog (SIGALRM, main thread of the worker)."""

    def __init__(self, factor=1.0):
        self.factor = factor

    def __enter__(self):
        import signal
        _ALARM["fired"] = False
        self.old = signal.signal(signal.SIGALRM, _on_alarm)
        signal.setitimer(signal.ITIMER_REAL, CASE_TIMEOUT_S * self.factor)

    def __exit__(self, *a):
        import signal
        signal.setitimer(signal.ITIMER_REAL, 0)
        signal.signal(signal.SIGALRM, self.old)
        return False


class HarnessError(Exception):
    """The machinery itself is broken; never a verdict (exit 2)."""


class _Abort(BaseException):
    """Leaves the Hypothesis engine immediately (shrink cap / harness error)."""
    def __init__(self, kind, payload=None):
        super().__init__(kind)
        self.kind = kind
        self.payload = payload


def repo_src():
    root = os.environ.get("VERIF_REPO", "/repo")
    return os.path.join(root, "src")


def _from_repo(exc):
    """True if the exception's traceback passes through the package under
    test (then it is behaviour of the code, not of the harness)."""
    tb = exc.__traceback__
    seen = False
    while tb is not None:
        fn = tb.tb_frame.f_code.co_filename
        if "/neuroglancer_scripts/" in fn:
            seen = True
        tb = tb.tb_next
    return seen


def innermost_repo_frame(exc):
    tb = exc.__traceback__
    last = None
    while tb is not None:
        fn = tb.tb_frame.f_code.co_filename
        if "/neuroglancer_scripts/" in fn:
            last = "%s:%s" % (fn.split("/neuroglancer_scripts/")[-1],
                              tb.tb_frame.f_code.co_name)
        tb = tb.tb_next
    return last


def derive_seed(*parts):
    h = hashlib.blake2b(repr(parts).encode(), digest_size=8).digest()
    return int.from_bytes(h, "big") % (2 ** 63)


class Sub:
    """One sub-check of a property."""

    def __init__(self, name, run, check=None, quick=100, thorough=1000,
                 shards=None, min_per_shard=20, serial=False, desc="",
                 sweep=False):
        self.name = name
        self.run = run              # run(ctx, n) -> None
        self.check = check          # check(ctx, case) plain function (replay)
        self.quick = quick
        self.thorough = thorough
        self.shards = shards
        self.min_per_shard = min_per_shard
        self.serial = serial        # runs in the parent (may use its own pool)
        self.sweep = sweep          # every shard gets the full n (it slices)
        self.desc = desc


class Ctx:
    def __init__(self, prop, sub, tier, seed, shard, scratch, known_open,
                 witness_of=None):
        self.prop = prop
        self.sub = sub
        self.tier = tier
        self.seed = seed
        self.shard = shard
        self.hseed = derive_seed(seed, prop, sub, shard)
        self.scratch = scratch
        self.known_open = known_open      # ids of open known findings
        self.witness_of = witness_of      # id being witnessed (not excluded)
        self.evaluations = 0
        self.counters = collections.Counter()
        self.nt = set()
        self.nt_extra = 0                 # distinct-by-construction (sweeps)
        self.samples = []
        self.violations = []
        self.excluded = collections.Counter()
        self.notes = []
        self._dirn = 0
        self.shrink_cap = 25.0 if tier == "quick" else 120.0
        self.nshards = 1

    # ---- bookkeeping ------------------------------------------------------
    def record(self, case, nontrivial, classes=(), key=None):
        self.evaluations += 1
        for c in classes:
            self.counters[c] += 1
        if nontrivial:
            self.counters["nontrivial"] += 1
            self.nt.add(case_hash(case if key is None else key))
        # samples: non-trivial cases taken at increasing depths of the run
        # (the first cases Hypothesis generates are the simplest ones)
        want = (3, 30, 300)[min(len(self.samples), 2)]
        if len(self.samples) < 3 and nontrivial and self.evaluations >= want:
            self.samples.append(short(case))

    def count(self, label, n=1):
        self.counters[label] += n

    def bulk(self, evaluations, nontrivial_distinct):
        """For exhaustive sweeps over distinct values (distinct by
        construction)."""
        self.evaluations += evaluations
        self.nt_extra += nontrivial_distinct
        self.counters["nontrivial"] += nontrivial_distinct

    def sample(self, obj):
        if len(self.samples) < 4:
            self.samples.append(short(obj))

    def known(self, fid, cond=True):
        """True (and counted) if `cond` holds and `fid` is an OPEN listed
        finding: the case is excluded by construction.  A fixed or unlisted
        finding excludes nothing."""
        if not cond:
            return False
        if fid in self.known_open and fid != self.witness_of:
            self.excluded[fid] += 1
            return True
        return False

    def fail(self, msg):
        raise Violation(msg)

    def tmpdir(self, prefix="d"):
        self._dirn += 1
        p = os.path.join(self.scratch, "%s%d" % (prefix, self._dirn))
        os.makedirs(p)
        return p

    def rmtree(self, p):
        shutil.rmtree(p, ignore_errors=True)

    # ---- Hypothesis glue --------------------------------------------------
    def _settings(self, n, **kw):
        from hypothesis import HealthCheck, Phase, settings
        base = dict(max_examples=n, database=None, deadline=None,
                    derandomize=False, report_multiple_bugs=False,
                    print_blob=False,
                    suppress_health_check=list(HealthCheck),
                    phases=[Phase.generate, Phase.shrink])
        base.update(kw)
        return settings(**base)

    def _wrap_failure(self, state, case, exc):
        """Classify an exception raised by a check function."""
        if isinstance(exc, Violation):
            msg = str(exc)
        elif _from_repo(exc):
            msg = "unexpected %s from %s: %s" % (
                type(exc).__name__, innermost_repo_frame(exc), exc)
        else:
            raise _Abort("harness", "".join(
                traceback.format_exception(type(exc), exc, exc.__traceback__)))
        size = len(json.dumps(to_jsonable(case)))
        if state["best"] is None or size <= state["best"][2]:
            state["best"] = (case, msg, size)
        state["last"] = (case, msg, size)
        if state["t0"] is None:
            state["t0"] = time.time()
        return msg

    def run_hypothesis(self, strategy, check, n):
        """Run check(ctx, case) on n generated cases; on failure shrink (under
        a wall-clock cap) and record one violation."""
        import hypothesis
        from hypothesis import given
        from hypothesis.errors import UnsatisfiedAssumption
        state = {"best": None, "last": None, "t0": None}
        ctx = self

        @hypothesis.seed(self.hseed)
        @self._settings(n)
        @given(strategy)
        def prop(case):
            if state["t0"] is not None and (
                    time.time() - state["t0"] > ctx.shrink_cap):
                raise _Abort("shrinkcap")
            try:
                if set_case_environment(case):
                    ctx.counters["cases_with_debug_logging"] += 1
                try:
                    with case_timer():
                        check(ctx, case)
                except (UnsatisfiedAssumption, _Abort):
                    raise
                except Exception:
                    if not _ALARM["fired"]:
                        raise
                    # time alone never decides: the same case is run again
                    # with six times the budget (a loaded machine or a big
                    # generated case is not a hang).  Whatever the
                    # interrupted code made of the interruption is dropped.
                    ctx.count("slow_case_rerun")
                    with case_timer(6.0):
                        check(ctx, case)
            except (UnsatisfiedAssumption, _Abort):
                raise
            except Exception as exc:   # noqa
                msg = ctx._wrap_failure(state, case, exc)
                raise Violation(msg) from None

        self._drive(prop, state)

    def run_grid(self, cases, check):
        """Exhaustive enumeration of a finite product of options: runs
        check(ctx, case) on this shard's slice of `cases` (for sub-checks
        declared with sweep=True).  The cases are small by construction, so
        nothing is shrunk; the first failing case is the violation."""
        for case in cases[self.shard::self.nshards]:
            try:
                if set_case_environment(case):
                    self.counters["cases_with_debug_logging"] += 1
                try:
                    with case_timer():
                        check(self, case)
                except Exception:
                    if not _ALARM["fired"]:
                        raise
                    self.count("slow_case_rerun")
                    with case_timer(6.0):
                        check(self, case)
            except Violation as exc:
                self.violations.append({"sub": self.sub,
                                        "case": to_jsonable(case),
                                        "message": str(exc)})
                return
            except Exception as exc:   # noqa
                if not _from_repo(exc):
                    raise HarnessError("".join(traceback.format_exception(
                        type(exc), exc, exc.__traceback__)))
                self.violations.append({
                    "sub": self.sub, "case": to_jsonable(case),
                    "message": "unexpected %s from %s: %s" % (
                        type(exc).__name__, innermost_repo_frame(exc), exc)})
                return

    def _drive(self, fn, state):
        import hypothesis.errors as he
        try:
            fn()
        except _Abort as a:
            if a.kind == "harness":
                raise HarnessError(a.payload)
        except Violation as exc:
            if state["best"] is None:
                # a Violation that did not pass through a recording wrapper:
                # never drop it silently
                state["best"] = state["last"] = (
                    {"unrecorded_case": True}, str(exc), 0)
        except (he.FailedHealthCheck, he.Unsatisfiable, he.InvalidArgument
                ) as exc:
            raise HarnessError("hypothesis: %r" % (exc,))
        except Exception as exc:
            # Flaky etc.: only meaningful if a real failure was recorded
            if state["best"] is None:
                raise HarnessError("".join(traceback.format_exception(
                    type(exc), exc, exc.__traceback__)))
            self.notes.append("hypothesis reported %s during shrinking"
                              % type(exc).__name__)
        if state["best"] is not None:
            # the last failing execution is Hypothesis' minimal example when
            # shrinking completed; otherwise fall back to the smallest seen
            case, msg, _ = state["last"] if state["t0"] is not None and (
                time.time() - state["t0"] <= self.shrink_cap
            ) else state["best"]
            self.violations.append({"sub": self.sub, "case": to_jsonable(case),
                                    "message": msg})

    def run_machine(self, machine_cls, n, steps):
        """Run a RuleBasedStateMachine whose rules are decorated with
        @logged; the history is the case."""
        import hypothesis
        from hypothesis.stateful import run_state_machine_as_test
        state = {"best": None, "last": None, "t0": None}
        ctx = self

        class Bound(machine_cls):
            pass
        Bound.__name__ = machine_cls.__name__
        Bound._ctx = ctx
        Bound._state = state

        def fn():
            run_state_machine_as_test(
                hypothesis.seed(self.hseed)(Bound),
                settings=self._settings(n, stateful_step_count=steps))
        self._drive(fn, state)


def logged(fn):
    """Decorator for state-machine rules: records (name, kwargs) in
    self.history and classifies failures."""
    @functools.wraps(fn)
    def wrapper(self, **kw):
        ctx = getattr(self, "_ctx", None)
        state = getattr(self, "_state", None)
        if state is not None and state["t0"] is not None and (
                time.time() - state["t0"] > ctx.shrink_cap):
            raise _Abort("shrinkcap")
        self.history.append([fn.__name__, to_jsonable(kw)])
        try:
            # (a rule cannot be run again on its own: three times the budget)
            with case_timer(3.0):
                return fn(self, **kw)
        except _Abort:
            raise
        except Exception as exc:  # noqa
            from hypothesis.errors import UnsatisfiedAssumption
            if isinstance(exc, UnsatisfiedAssumption):
                raise
            if state is None:
                raise
            msg = ctx._wrap_failure(state, list(self.history), exc)
            raise Violation(msg) from None
    return wrapper


def checked(fn):
    """Decorator for state-machine invariants: a failure is attributed to the
    history recorded so far."""
    @functools.wraps(fn)
    def wrapper(self):
        ctx = getattr(self, "_ctx", None)
        state = getattr(self, "_state", None)
        try:
            with case_timer(3.0):
                return fn(self)
        except _Abort:
            raise
        except Exception as exc:  # noqa
            from hypothesis.errors import UnsatisfiedAssumption
            if isinstance(exc, UnsatisfiedAssumption) or state is None:
                raise
            msg = ctx._wrap_failure(state, list(self.history), exc)
            raise Violation(msg) from None
    return wrapper


def replay_history(machine_cls, ctx, history):
    """Plain (no Hypothesis) re-execution of a recorded history."""
    class Bound(machine_cls):
        pass
    Bound._ctx = ctx
    Bound._state = None
    m = Bound()
    try:
        for name, kw in history:
            getattr(m, name)(**from_jsonable(kw))
            for inv in getattr(m, "plain_invariants", ()):
                getattr(m, inv)()
    finally:
        try:
            m.teardown()
        except Exception:
            pass


# ---------------------------------------------------------------------------
# known findings
# ---------------------------------------------------------------------------

def load_known():
    path = os.path.join(VERIF, "known_findings.json")
    if not os.path.exists(path):
        return []
    with open(path) as f:
        return json.load(f)["findings"]


# ---------------------------------------------------------------------------
# driver
# ---------------------------------------------------------------------------

def _make_scratch():
    base = "/dev/shm" if os.path.isdir("/dev/shm") and os.access(
        "/dev/shm", os.W_OK) else tempfile.gettempdir()
    d = tempfile.mkdtemp(prefix="verif-", dir=base)
    return d


def _run_task(args):
    (modname, prop, subname, tier, seed, shard, n, scratch_root,
     known_open, nshards) = args
    import importlib
    mod = importlib.import_module(modname)
    sub = {s.name: s for s in mod.SUBS}[subname]
    scratch = os.path.join(scratch_root, "%s-%d" % (subname, shard))
    os.makedirs(scratch, exist_ok=True)
    os.environ["TMPDIR"] = scratch
    tempfile.tempdir = scratch
    ctx = Ctx(prop, subname, tier, seed, shard, scratch, known_open)
    ctx.nshards = nshards
    t0 = time.time()
    err = None
    import contextlib
    try:
        # the package's own terminal output goes to a sink that, like the
        # console of many installations (cp1252, C locale), cannot encode
        # everything: a message that needs more than ASCII fails there
        with open(os.devnull, "w", encoding="ascii") as devnull, \
                contextlib.redirect_stdout(devnull):
            sub.run(ctx, n)
    except HarnessError as exc:
        err = str(exc)
    except Exception as exc:  # noqa
        err = "".join(traceback.format_exception(type(exc), exc,
                                                 exc.__traceback__))
    shutil.rmtree(scratch, ignore_errors=True)
    return {
        "sub": subname, "shard": shard, "n": n, "error": err,
        "evaluations": ctx.evaluations, "counters": dict(ctx.counters),
        "nt": ctx.nt, "nt_extra": ctx.nt_extra, "samples": ctx.samples,
        "violations": ctx.violations, "excluded": dict(ctx.excluded),
        "notes": ctx.notes, "wall": time.time() - t0,
    }


def _bucket(v):
    m = v["message"]
    # strip numbers so that the same root cause with other values coincides
    import re
    return v["sub"] + "|" + re.sub(r"[-+]?\d[\d.e+-]*", "#", m)[:160]


def main(mod, argv=None):
    import argparse
    ap = argparse.ArgumentParser()
    ap.add_argument("--tier", default=os.environ.get("VERIF_TIER", "quick"),
                    choices=("quick", "thorough"))
    ap.add_argument("--replay", default=None)
    ap.add_argument("--only", default=None, help="comma list of sub-checks")
    ap.add_argument("--scale", type=float, default=1.0)
    ap.add_argument("--workers", type=int,
                    default=int(os.environ.get("VERIF_WORKERS", "14")))
    args = ap.parse_args(argv)
    prop = mod.PROPERTY
    try:
        seed = int(os.environ.get("VERIF_SEED", "1"))
    except ValueError:
        seed = 1
    known = [k for k in load_known() if k["property"] == prop]
    known_open = sorted(k["id"] for k in known if k["status"] == "open")
    scratch_root = _make_scratch()
    os.environ["TMPDIR"] = scratch_root
    tempfile.tempdir = scratch_root
    try:
        if args.replay:
            return _replay(mod, args.replay, scratch_root, known_open)
        return _run(mod, args, seed, known, known_open, scratch_root)
    finally:
        shutil.rmtree(scratch_root, ignore_errors=True)


def _replay(mod, path, scratch_root, known_open, quiet=False, witness_of=None):
    with open(path) as f:
        rep = json.load(f)
    sub = {s.name: s for s in mod.SUBS}[rep["subcheck"]]
    scratch = tempfile.mkdtemp(prefix="replay-", dir=scratch_root)
    ctx = Ctx(mod.PROPERTY, sub.name, "quick", 0, 0, scratch, known_open,
              witness_of=witness_of)
    case = from_jsonable(rep["case"])
    import contextlib
    try:
        with open(os.devnull, "w") as devnull, \
                contextlib.redirect_stdout(devnull):
            set_case_environment(case)
            sub.check(ctx, case)
    except Violation as exc:
        if not quiet:
            print("replay: %s" % exc)
            print("VIOLATION property=%s replay=%s" % (mod.PROPERTY, path))
        return 1
    except Exception as exc:  # noqa
        if _from_repo(exc):
            if not quiet:
                print("replay: unexpected %s from %s: %s" % (
                    type(exc).__name__, innermost_repo_frame(exc), exc))
                print("VIOLATION property=%s replay=%s" % (mod.PROPERTY, path))
            return 1
        traceback.print_exc()
        return 2
    if not quiet:
        print("replay: case passes")
    return 0


def _run(mod, args, seed, known, known_open, scratch_root):
    prop = mod.PROPERTY
    t0 = time.time()
    subs = list(mod.SUBS)
    if args.only:
        want = set(args.only.split(","))
        subs = [s for s in subs if s.name in want]
    tasks = []
    serial = []
    for s in subs:
        n = s.quick if args.tier == "quick" else s.thorough
        n = max(1, int(n * args.scale))
        if s.serial:
            serial.append((s, n))
            continue
        shards = s.shards or max(1, min(args.workers, n // s.min_per_shard))
        per = [n // shards + (1 if i < n % shards else 0)
               for i in range(shards)]
        if s.sweep:
            per = [n] * shards
        for i, k in enumerate(per):
            if k > 0:
                tasks.append((mod.__name__, prop, s.name, args.tier, seed, i,
                              k, scratch_root, known_open, shards))
    results = []
    errors = []
    if tasks:
        ctxmp = multiprocessing.get_context("fork")
        with concurrent.futures.ProcessPoolExecutor(
                max_workers=min(args.workers, len(tasks)),
                mp_context=ctxmp) as ex:
            budget = float(os.environ.get(
                "VERIF_RUN_BUDGET_S", "1500" if args.tier == "quick"
                else "14400"))
            futs = [ex.submit(_run_task, t) for t in tasks]
            done, pending = concurrent.futures.wait(futs, timeout=budget)
            if pending:
                for f in pending:
                    f.cancel()
                for proc in list(getattr(ex, "_processes", {}).values()):
                    proc.kill()
                print("HARNESS ERROR: wall-clock budget of %.0f s exhausted "
                      "(inconclusive)" % budget, file=sys.stderr)
                os._exit(2)
            for f in futs:
                results.append(f.result())
    for s, n in serial:
        results.append(_run_task((mod.__name__, prop, s.name, args.tier, seed,
                                  0, n, scratch_root, known_open, 1)))
    for r in results:
        if r["error"]:
            errors.append("%s[%d]: %s" % (r["sub"], r["shard"], r["error"]))

    # ---- merge ----
    evaluations = sum(r["evaluations"] for r in results)
    counters = collections.Counter()
    excluded = collections.Counter()
    nt = set()
    nt_extra = 0
    per_sub = {}
    samples = []
    notes = []
    violations = []
    for r in results:
        counters.update({"%s.%s" % (r["sub"], k): v
                         for k, v in r["counters"].items()})
        excluded.update(r["excluded"])
        nt |= {(r["sub"], h) for h in r["nt"]}
        nt_extra += r["nt_extra"]
        ps = per_sub.setdefault(r["sub"], {"evaluations": 0, "wall_s": 0.0})
        ps["evaluations"] += r["evaluations"]
        ps["_extra"] = ps.get("_extra", 0) + r["nt_extra"]
        ps["wall_s"] = round(max(ps["wall_s"], r["wall"]), 2)
        if r["shard"] == 0:
            for s_ in r["samples"][-2:]:
                samples.append({"sub": r["sub"], "case": s_})
        notes.extend(r["notes"])
        violations.extend(r["violations"])
    for name in per_sub:
        per_sub[name]["distinct_nontrivial"] = sum(
            1 for (s_, _) in nt if s_ == name) + per_sub[name].pop("_extra", 0)

    # ---- violations -> replay files ----
    seen = {}
    for v in violations:
        seen.setdefault(_bucket(v), v)
    out_lines = []
    rdir = os.path.join(VERIF, "replays", prop)
    for b, v in list(seen.items())[:10]:
        os.makedirs(rdir, exist_ok=True)
        h = hashlib.blake2b(json.dumps(v["case"], sort_keys=True).encode(),
                            digest_size=6).hexdigest()
        path = os.path.join(rdir, "fail-%s-%s.json" % (v["sub"], h))
        with open(path, "w") as f:
            json.dump({"property": prop, "subcheck": v["sub"],
                       "message": v["message"], "case": v["case"]}, f,
                      indent=1, sort_keys=True)
        out_lines.append((v, path))

    # ---- committed regression cases (fixed findings, seeded mutants) ----
    import glob
    regress = sorted(glob.glob(os.path.join(rdir, "regress-*.json")))
    for path in regress:
        rc = _replay(mod, path, scratch_root, known_open, quiet=True)
        if rc == 1:
            with open(path) as f:
                rep = json.load(f)
            out_lines.append(({"sub": rep["subcheck"], "message":
                               "committed regression case fails again: "
                               + rep.get("message", "")}, path))
        elif rc == 2:
            errors.append("regression replay %s failed in the harness" % path)

    # ---- known findings: replay their witnesses ----
    kf_lines = []
    for k in known:
        if k["status"] != "open":
            continue
        wpath = os.path.join(VERIF, k["witness"])
        rc = _replay(mod, wpath, scratch_root, known_open, quiet=True,
                     witness_of=k["id"])
        if rc == 1:
            kf_lines.append("KNOWN-FINDING: property=%s %s: %s (witness %s; "
                            "%d generated cases excluded by its signature)" % (
                                prop, k["id"], k["summary"], k["witness"],
                                excluded.get(k["id"], 0)))
        elif rc == 2:
            errors.append("witness replay of %s failed in the harness"
                          % k["id"])
        else:
            notes.append("known finding %s: witness no longer fails" % k["id"])

    wall = time.time() - t0
    distinct_nt = len(nt) + nt_extra
    meta = getattr(mod, "META", {})
    evidence = {
        "property_id": prop,
        "tier": args.tier,
        "seed": seed,
        "level": meta.get("level", "exploration"),
        "coverage": {
            "evaluations": evaluations,
            "distinct_nontrivial": distinct_nt,
            "rule": meta.get("rule", ""),
            "samples": samples or ["(none)"],
            "per_subcheck": per_sub,
            "classes": dict(sorted(counters.items())),
            "excluded_known": dict(excluded),
            "exhaustive": bool(meta.get("exhaustive", False)),
            "exhaustive_parts": meta.get("exhaustive_parts", []),
            "trusted_base": meta.get("trusted_base", []),
            "notes": notes[:20],
            "known_findings_reported": [l_ for l_ in kf_lines],
            "harness_errors": errors[:5],
            "regression_cases_replayed": len(regress),
        },
        "assumptions": meta.get("assumptions", []),
        "wall_s": round(wall, 2),
        "violations": len(out_lines),
    }
    os.makedirs(os.path.join(VERIF, "evidence"), exist_ok=True)
    with open(os.path.join(VERIF, "evidence", prop + ".json"), "w") as f:
        json.dump(evidence, f, indent=1, sort_keys=True)

    print("%s tier=%s seed=%d evaluations=%d distinct_nontrivial=%d "
          "wall=%.1fs" % (prop, args.tier, seed, evaluations, distinct_nt,
                          wall))
    for name, ps in sorted(per_sub.items()):
        print("  %-22s evals=%-8d nontrivial=%-7d %.1fs" % (
            name, ps["evaluations"], ps["distinct_nontrivial"], ps["wall_s"]))
    for l_ in kf_lines:
        print(l_)
    for v, path in out_lines:
        print("  [%s] %s" % (v["sub"], v["message"][:400]))
        print("VIOLATION property=%s replay=%s" % (prop, path))
    if errors:
        shown = set()
        for e in errors:
            key = e.split(": ", 1)[-1][-300:]
            if key in shown or len(shown) >= 3:
                continue
            shown.add(key)
            print("HARNESS ERROR: " + e[-1500:], file=sys.stderr)
        print("HARNESS ERROR: %d task(s) failed in the harness" % len(errors),
              file=sys.stderr)
    if out_lines:
        return 1
    if errors:
        return 2
    return 0
