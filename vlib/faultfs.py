"""I/O interposition layer for C18: traces the I/O calls of one operation,
fails the k-th call with an errno, or "kills the process" after the k-th
event and reconstructs the on-disk state from the recorded events.

Interposed (only for paths under the given roots):
  builtins.open / io.open (hence pathlib.Path.open and gzip.open), the
  returned file objects' read / write / seek / close / flush,
  os.makedirs, os.mkdir, pathlib.Path.mkdir / is_file / exists / unlink,
  requests.Session.get / head (optional).

Events that change the disk are recorded as
  ("mkdir", path) | ("create", path) | ("write", path, offset, bytes) |
  ("unlink", path)
so that a crash after event k can be replayed onto a pristine copy of the
tree: nothing the dying process does afterwards (buffer flushes, context
manager exits) reaches the reconstructed state.
"""
import builtins
import errno as errno_mod
import io
import os
import pathlib
import shutil


class Crash(BaseException):
    """The simulated process is killed here."""


class _File:
    """Proxy around a real file object."""

    def __init__(self, layer, real, path, mode):
        self._layer = layer
        self._real = real
        self._path = path
        self._mode = mode
        self._pos = 0
        try:
            layer.fds[real.fileno()] = self
        except Exception:
            pass
        if "a" in mode:
            try:
                self._pos = os.path.getsize(path)
            except OSError:
                self._pos = 0

    # -- interposed operations -------------------------------------------------
    def write(self, data):
        data = bytes(data)
        self._layer.call("write", self._path)
        if self._layer.short_pending:
            # the device is full: only the first half of the data is stored.
            # An unbuffered (raw) file reports the short count like the
            # system call does; a buffered file would retry the rest, get
            # ENOSPC from the kernel and raise it.
            self._layer.short_pending = False
            part = data[:len(data) // 2]
            n = self._real.write(part) if part else 0
            try:
                self._real.flush()
            except Exception:       # noqa
                pass
            self._layer.event(("write", self._path, self._pos, part))
            self._pos += len(part)
            if isinstance(self._real, io.RawIOBase):
                return n
            import errno as _errno
            raise OSError(_errno.ENOSPC, os.strerror(_errno.ENOSPC),
                          self._path)
        n = self._real.write(data)
        self._layer.event(("write", self._path, self._pos, data))
        self._pos += len(data)
        return n

    def read(self, *a):
        self._layer.call("read", self._path)
        out = self._real.read(*a)
        self._pos += len(out)
        return out

    def readinto(self, b):
        self._layer.call("read", self._path)
        n = self._real.readinto(b)
        self._pos += n or 0
        return n

    def read1(self, *a):
        self._layer.call("read", self._path)
        out = self._real.read1(*a)
        self._pos += len(out)
        return out

    def seek(self, off, whence=0):
        self._layer.call("seek", self._path)
        r = self._real.seek(off, whence)
        self._pos = r
        return r

    def flush(self):
        return self._real.flush()

    def truncate(self, size=None):
        self._layer.call("truncate", self._path)
        r = self._real.truncate(size)
        self._layer.event(("truncate", self._path,
                           self._pos if size is None else size))
        return r

    def close(self):
        try:
            if not self._real.closed:
                self._layer.call("close", self._path)
        finally:
            self._real.close()

    def __enter__(self):
        return self

    def __exit__(self, et, ev, tb):
        if et is not None and issubclass(et, Crash):
            # the process is dead: nothing more reaches the disk model
            try:
                self._real.close()
            except Exception:
                pass
            return False
        self.close()
        return False

    def __iter__(self):
        return iter(self._real)

    def __getattr__(self, name):
        return getattr(self._real, name)


class Layer:
    def __init__(self, roots, mode="trace", k=None, err=None,
                 with_requests=False):
        self.roots = [os.path.realpath(r) for r in roots]
        self.mode = mode
        self.k = k
        self.err = err
        self.with_requests = with_requests
        self.calls = []        # (kind, path) in order
        self.events = []       # disk-changing events in order
        self.active = False
        self.fired = False
        self.short_pending = False
        self.fds = {}

    # -- bookkeeping -------------------------------------------------------------
    def mine(self, path):
        try:
            p = os.path.realpath(os.fspath(path))
        except TypeError:
            return False
        return any(p == r or p.startswith(r + os.sep) for r in self.roots)

    def call(self, kind, path):
        """Registers one interposed call; may inject the fault."""
        if not self.active:
            return
        idx = len(self.calls)
        self.calls.append((kind, os.fspath(path)))
        if self.mode == "fail" and idx == self.k and not self.fired:
            if self.err == "SHORT":
                # a full device: the write stores only a part of the data
                # (see _File.write); only meaningful for write calls
                if kind == "write":
                    self.fired = True
                    self.short_pending = True
                return
            self.fired = True
            raise OSError(self.err, os.strerror(self.err), os.fspath(path))

    def event(self, ev):
        if not self.active:
            return
        self.events.append(ev)
        if self.mode == "crash" and len(self.events) == self.k and \
                not self.fired:
            self.fired = True
            raise Crash()

    # -- patches -------------------------------------------------------------------
    def __enter__(self):
        L = self
        self._orig = {
            "open": builtins.open, "io_open": io.open,
            "makedirs": os.makedirs, "mkdir": os.mkdir,
            "p_mkdir": pathlib.Path.mkdir, "p_is_file": pathlib.Path.is_file,
            "p_exists": pathlib.Path.exists, "p_unlink": pathlib.Path.unlink,
        }
        o = self._orig

        def f_open(file, mode="r", *a, **k):
            if not L.active or isinstance(file, int) or not L.mine(file):
                return o["open"](file, mode, *a, **k)
            path = os.fspath(file)
            L.call("open:" + mode, path)
            existed = os.path.exists(path)
            real = o["open"](file, mode, *a, **k)
            if any(c in mode for c in "wx") or ("a" in mode and not existed):
                L.event(("create", path))
            return _File(L, real, path, mode)

        def f_makedirs(name, mode=0o777, exist_ok=False):
            if not L.active or not L.mine(name):
                return o["makedirs"](name, mode, exist_ok)
            L.call("makedirs", name)
            # os.makedirs calls os.mkdir (patched below), which records the
            # mkdir events
            return o["makedirs"](name, mode, exist_ok)

        def f_mkdir(path, mode=0o777, **k):
            if not L.active or not L.mine(path):
                return o["mkdir"](path, mode, **k)
            existed = os.path.isdir(path)
            r = o["mkdir"](path, mode, **k)
            if not existed:
                L.event(("mkdir", os.path.abspath(os.fspath(path))))
            return r

        def p_mkdir(self_, mode=0o777, parents=False, exist_ok=False):
            if not L.active or not L.mine(self_):
                return o["p_mkdir"](self_, mode, parents, exist_ok)
            L.call("mkdir", self_)
            # Path.mkdir calls os.mkdir (patched above) for the events
            return o["p_mkdir"](self_, mode, parents, exist_ok)

        def p_is_file(self_, *a, **k):
            if L.active and L.mine(self_):
                L.call("is_file", self_)
            return o["p_is_file"](self_, *a, **k)

        def p_exists(self_, *a, **k):
            if L.active and L.mine(self_):
                L.call("exists", self_)
            return o["p_exists"](self_, *a, **k)

        def p_unlink(self_, *a, **k):
            if not L.active or not L.mine(self_):
                return o["p_unlink"](self_, *a, **k)
            # pathlib calls os.unlink (patched): the call and the event are
            # registered there
            return o["p_unlink"](self_, *a, **k)

        # fd-level / path-level calls that change files behind the back of
        # the file objects
        def fd_path(fd):
            f = L.fds.get(fd)
            try:
                if f is not None and f._real.fileno() == fd:
                    return f
            except Exception:
                pass
            return None

        o["posix_fallocate"] = getattr(os, "posix_fallocate", None)
        o["ftruncate"] = os.ftruncate
        o["truncate"] = os.truncate
        o["rename"] = os.rename
        o["replace"] = os.replace
        o["remove"] = os.remove
        o["os_unlink"] = os.unlink
        o["os_write"] = os.write

        def f_fallocate(fd, offset, length):
            f = fd_path(fd) if L.active else None
            if f is None:
                return o["posix_fallocate"](fd, offset, length)
            L.call("fallocate", f._path)
            f._real.flush()
            r = o["posix_fallocate"](fd, offset, length)
            L.event(("fallocate", f._path, offset, length))
            return r

        def f_ftruncate(fd, length):
            f = fd_path(fd) if L.active else None
            if f is None:
                return o["ftruncate"](fd, length)
            L.call("truncate", f._path)
            f._real.flush()
            r = o["ftruncate"](fd, length)
            L.event(("truncate", f._path, length))
            return r

        def f_truncate(path, length):
            if not L.active or isinstance(path, int) or not L.mine(path):
                return o["truncate"](path, length)
            L.call("truncate", path)
            r = o["truncate"](path, length)
            L.event(("truncate", os.fspath(path), length))
            return r

        def mk_rename(orig):
            def f_rename(src, dst, **k):
                if not L.active or not (L.mine(src) or L.mine(dst)):
                    return orig(src, dst, **k)
                L.call("rename", dst)
                r = orig(src, dst, **k)
                L.event(("rename", os.fspath(src), os.fspath(dst)))
                return r
            return f_rename

        def mk_remove(orig):
            def f_remove(path, **k):
                if not L.active or not L.mine(path):
                    return orig(path, **k)
                L.call("unlink", path)
                r = orig(path, **k)
                L.event(("unlink", os.fspath(path)))
                return r
            return f_remove

        def f_os_write(fd, data):
            f = fd_path(fd) if L.active else None
            if f is None:
                return o["os_write"](fd, data)
            return f.write(data)

        if o["posix_fallocate"]:
            os.posix_fallocate = f_fallocate
        os.ftruncate = f_ftruncate
        os.truncate = f_truncate
        os.rename = mk_rename(o["rename"])
        os.replace = mk_rename(o["replace"])
        os.remove = mk_remove(o["remove"])
        os.unlink = mk_remove(o["os_unlink"])
        os.write = f_os_write
        builtins.open = f_open
        io.open = f_open
        os.makedirs = f_makedirs
        os.mkdir = f_mkdir
        pathlib.Path.mkdir = p_mkdir
        pathlib.Path.is_file = p_is_file
        pathlib.Path.exists = p_exists
        pathlib.Path.unlink = p_unlink
        if self.with_requests:
            import requests
            self._orig["get"] = requests.Session.get
            self._orig["head"] = requests.Session.head

            def s_get(self_, url, **k):
                L.net_call("GET", url)
                return o["get"](self_, url, **k)

            def s_head(self_, url, **k):
                L.net_call("HEAD", url)
                return o["head"](self_, url, **k)
            requests.Session.get = s_get
            requests.Session.head = s_head
        self.active = True
        return self

    def net_call(self, kind, url):
        if not self.active:
            return
        idx = len(self.calls)
        self.calls.append((kind, url))
        if self.mode == "fail" and idx == self.k and not self.fired:
            self.fired = True
            import requests
            raise requests.exceptions.ConnectionError(
                "injected connection reset for %s %s" % (kind, url))

    def __exit__(self, *a):
        self.active = False
        o = self._orig
        builtins.open = o["open"]
        io.open = o["io_open"]
        os.makedirs = o["makedirs"]
        os.mkdir = o["mkdir"]
        pathlib.Path.mkdir = o["p_mkdir"]
        pathlib.Path.is_file = o["p_is_file"]
        pathlib.Path.exists = o["p_exists"]
        pathlib.Path.unlink = o["p_unlink"]
        if o["posix_fallocate"]:
            os.posix_fallocate = o["posix_fallocate"]
        os.ftruncate = o["ftruncate"]
        os.truncate = o["truncate"]
        os.rename = o["rename"]
        os.replace = o["replace"]
        os.remove = o["remove"]
        os.unlink = o["os_unlink"]
        os.write = o["os_write"]
        if self.with_requests:
            import requests
            requests.Session.get = o["get"]
            requests.Session.head = o["head"]
        return False


def replay_events(pristine, dest, events, root_from, torn=None):
    """Copies `pristine` to `dest` and applies `events` (recorded relative to
    `root_from`, the directory the traced run worked in).  `torn` = number of
    bytes of the LAST write event that reach the disk (None = all)."""
    if os.path.exists(dest):
        shutil.rmtree(dest)
    shutil.copytree(pristine, dest)
    root_from = os.path.realpath(root_from)

    def tr(p):
        p = os.path.realpath(p) if os.path.exists(os.path.dirname(p)) \
            else os.path.abspath(p)
        if p == root_from or p.startswith(root_from + os.sep):
            return os.path.join(dest, os.path.relpath(p, root_from))
        return None
    for i, ev in enumerate(events):
        kind, path = ev[0], ev[1]
        t = tr(path)
        if t is None:
            continue     # outside the dataset (temporary buffers)
        if kind == "mkdir":
            os.makedirs(t, exist_ok=True)
        elif kind == "create":
            os.makedirs(os.path.dirname(t), exist_ok=True)
            with open(t, "wb"):
                pass
        elif kind == "write":
            data = ev[3]
            if torn is not None and i == len(events) - 1:
                data = data[:torn]
            mode = "r+b" if os.path.exists(t) else "wb"
            with open(t, mode) as f:
                f.seek(ev[2])
                f.write(data)
        elif kind == "unlink":
            if os.path.exists(t):
                os.unlink(t)
        elif kind == "fallocate":
            if os.path.exists(t):
                need = ev[2] + ev[3]
                size = os.path.getsize(t)
                if size < need:
                    with open(t, "r+b") as f:
                        f.seek(size)
                        f.write(b"\0" * (need - size))
        elif kind == "truncate":
            if os.path.exists(t):
                with open(t, "r+b") as f:
                    f.truncate(ev[2])
        elif kind == "rename":
            t2 = tr(ev[2])
            if t2 is not None and os.path.exists(t):
                os.makedirs(os.path.dirname(t2), exist_ok=True)
                os.replace(t, t2)


ERRNOS = {"ENOSPC": errno_mod.ENOSPC, "EACCES": errno_mod.EACCES,
          "EIO": errno_mod.EIO, "ENOENT": errno_mod.ENOENT}
