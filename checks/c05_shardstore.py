"""C05 - sharded storage returns what was stored, whatever the order of writes."""
import itertools
import json
import os

import numpy as np
from hypothesis import strategies as st

from checks import shard_common as sc
from vlib import datasets as ds
from vlib.refs import morton
from vlib.runner import Sub, case_timer

PROPERTY = "C05"
META = {
    "level": "exploration",
    "rule": ("history pairs: the same (configuration, chunk subset, "
             "contents) stored under two (order, buffer strategy) choices and "
             "a sorted in-memory reference; Hypothesis draws grids 1..5, bit "
             "triples, encodings, subsets, permutations, and a two-scale "
             "variant; exhaustive part: every non-empty subset of a 2x2x2 "
             "grid x bit triples x every permutation (subsets of <= 5 chunks; "
             "20 sampled permutations above). non-trivial = an out-of-order "
             "arrival that had to be buffered and a gap; distinct by the "
             "whole case."
             ' Also: bytes / bytearray (overwritten by the caller right af'
             'ter the call) / flat memoryview payloads.'
             " Round 12: in two-scale histories the info is revised through the live accessor before the second scale is written; the second scale is read back by a fresh accessor and the specification-only reader."
             " Round 18: two scales stored alternately through one accessor."),
    "exhaustive_parts": ["perm_exhaustive: all subsets of a 2x2x2 grid, all "
                         "permutations for <= 5 chunks, triples in a fixed "
                         "list (quick) / all of {0,1,2}^3 (thorough)"],
    "trusted_base": ["dict model of the store", "vlib/refs/morton.py"],
}


def chunk_array(case, pos):
    sc_ = sc.scale_info(case)
    cc = sc.coords_of(pos, case["cs"], sc_["size"])
    shape = (1, cc[5] - cc[4], cc[3] - cc[2], cc[1] - cc[0])
    n = shape[1] * shape[2] * shape[3]
    base = (case["seed"] * 7 + pos[0] * 31 + pos[1] * 17 + pos[2] * 5) % 251
    return ((np.arange(n, dtype=np.uint32) * 3 + base + 1) % 255 + 1).astype(
        np.uint8).reshape(shape), cc


def store(path, case, order, strategy, second_scale=False):
    from neuroglancer_scripts.sharded_file_accessor import ShardedFileAccessor
    info = ds.make_info("uint8", 1, [sc.scale_info(case)])
    if second_scale:
        s2 = json.loads(json.dumps(info["scales"][0]))
        s2["key"] = "s1"
        info["scales"].append(s2)
    os.makedirs(path, exist_ok=True)
    with open(os.path.join(path, "info"), "w") as f:
        json.dump(info, f)
    acc = ShardedFileAccessor(path, strategy=strategy)
    if second_scale and case["seed"] % 4 == 2:
        # the two scales are written ALTERNATELY through the one accessor
        # (chunk of s0, chunk of s1, chunk of s0, ...), closed once at the end
        for pos, pos1 in zip(order, list(reversed(order))):
            arr, cc = chunk_array(case, pos)
            acc.store_chunk(arr.tobytes(), sc.KEY, cc)
            arr1, cc1 = chunk_array(case, pos1)
            acc.store_chunk(arr1.tobytes()[::-1], "s1", cc1)
        acc.close()
        return info
    for pos in order:
        arr, cc = chunk_array(case, pos)
        buf = arr.tobytes()
        # "a bytes buffer": bytes, a bytearray (which the caller re-uses as
        # soon as the call has returned) or a flat byte view
        rep = (pos[0] + 2 * pos[1] + 3 * pos[2] + case["seed"]) % 4
        if rep == 1:
            buf = bytearray(buf)
        elif rep == 2:
            buf = memoryview(buf)
        acc.store_chunk(buf, sc.KEY, cc)
        if rep == 1:
            buf[:] = b"\xee" * len(buf)
    acc.close()
    if second_scale and case["seed"] % 2:
        # the info is revised through the same accessor before the second
        # scale is written (as get_IO_for_new_dataset(overwrite_info=True)
        # does): the scale not written yet gets other sharding parameters
        info["scales"][1]["sharding"] = revised_sharding(case)
        acc.store_file("info", json.dumps(info).encode(), overwrite=True)
    if second_scale:
        # a later scale written through the same accessor after a close(),
        # exactly as compute_dyadic_scales does
        for pos in reversed(order):
            arr, cc = chunk_array(case, pos)
            acc.store_chunk(arr.tobytes()[::-1], "s1", cc)
        acc.close()
    return info


def revised_sharding(case):
    mini, shard, pre = case["bits"]
    flip = {"raw": "gzip", "gzip": "raw"}
    return ds.sharding_dict(shard % 3, mini + 1, (pre + 1) % 3,
                            flip[case["index_enc"]], flip[case["data_enc"]])


def shard_tree(path):
    return {k: v for k, v in ds.tree_snapshot(path).items()
            if k.endswith(".shard") or k.endswith(".index")
            or k.endswith(".data")}


def buffered_and_gap(case, order):
    """Did some arrival have to wait in the buffer, and is there a gap?"""
    mini, shard, pre = case["bits"]
    groups = {}
    for pos in order:
        cid = sc.chunk_id(pos, case["grid"])
        groups.setdefault(morton.route(cid, pre, mini, shard), []).append(cid)
    buffered = gap = False
    for key, ids in groups.items():
        # expected ids of this minishard in increasing order
        if ids != sorted(ids):
            buffered = True
        if ids and min(ids) != _first_id(key, case):
            buffered = True
            gap = True
        if len(set(ids)) > 1:
            pass
    npos = case["grid"][0] * case["grid"][1] * case["grid"][2]
    if len(order) < npos:
        gap = True
    return buffered, gap


def _first_id(key, case):
    mini, shard, pre = case["bits"]
    s, m = key
    return ((s << mini) | m) << pre if pre < 64 else 0


def read_back(ctx, path, case, order, what):
    """Oracle (a) and (c) through a freshly opened accessor."""
    from neuroglancer_scripts import accessor, precomputed_io
    from neuroglancer_scripts.sharded_file_accessor import ShardedFileAccessor
    acc = accessor.get_accessor_for_url(path)
    if not isinstance(acc, ShardedFileAccessor):
        ctx.fail("a dataset whose info declares sharding is opened as %s" %
                 type(acc).__name__)
    pio = precomputed_io.get_IO_for_existing_dataset(acc)
    stored = set(order)
    sc_ = sc.scale_info(case)
    # one reader object serves many fetches: stored and never-stored chunks in
    # grid order, then in a shuffled order, then reversed
    positions = sc.grid_positions(case["grid"])
    shuffled = list(positions)
    np.random.default_rng(case["seed"]).shuffle(shuffled)
    sequence = positions + [tuple(p) for p in shuffled] + positions[::-1]
    if len(positions) > 40:
        sequence = positions + [tuple(p) for p in shuffled]
    for pos in sequence:
        arr, cc = chunk_array(case, pos)
        if pos in stored:
            try:
                got = acc.fetch_chunk(sc.KEY, cc)
            except Exception as exc:
                ctx.fail("%s: fetch of stored chunk %s failed with %s: %s "
                         "(grid %s bits %s order %s)" % (
                             what, list(pos), type(exc).__name__, exc,
                             case["grid"], case["bits"],
                             [list(p) for p in order][:8]))
            if got != arr.tobytes():
                ctx.fail("%s: chunk %s reads back as %r..., stored %r... "
                         "(grid %s bits %s)" % (
                             what, list(pos), bytes(got[:8]),
                             arr.tobytes()[:8], case["grid"], case["bits"]))
            dec = pio.read_chunk(sc.KEY, cc)
            if dec.shape != arr.shape or not np.array_equal(dec, arr):
                ctx.fail("%s: chunk %s decodes to a different array" % (
                    what, list(pos)))
        else:
            try:
                got = acc.fetch_chunk(sc.KEY, cc)
            except Exception:
                got = None
            if got:
                ctx.fail("%s: chunk %s was never stored but fetch_chunk "
                         "returns %d bytes (grid %s bits %s order %s)" % (
                             what, list(pos), len(got), case["grid"],
                             case["bits"], [list(p) for p in order][:8]))
            try:
                dec = pio.read_chunk(sc.KEY, cc)
            except Exception:
                dec = None
            if dec is not None:
                ctx.fail("%s: chunk %s was never stored but read_chunk "
                         "returns an array" % (what, list(pos)))


def read_back_second(ctx, path, case, order, what):
    """The second scale, through a freshly opened accessor and through the
    reader written from the format description (with the info on disk)."""
    from neuroglancer_scripts import accessor
    acc = accessor.get_accessor_for_url(path)
    with open(os.path.join(path, "info")) as f:
        info = json.load(f)
    s1 = info["scales"][1]
    for pos in order:
        arr, cc = chunk_array(case, pos)
        want = arr.tobytes()[::-1]
        try:
            got = acc.fetch_chunk("s1", cc)
        except Exception as exc:
            ctx.fail("%s: fetch of chunk %s of the second scale failed with "
                     "%s: %s (grid %s bits %s, sharding of the scale %s)" % (
                         what, list(pos), type(exc).__name__, exc,
                         case["grid"], case["bits"], s1["sharding"]))
        if bytes(got) != want:
            ctx.fail("%s: chunk %s of the second scale reads back as %r..., "
                     "stored %r... (sharding of the scale %s)" % (
                         what, list(pos), bytes(got[:8]), want[:8],
                         s1["sharding"]))
        sh = s1["sharding"]
        params = {k: sh.get(k, "raw" if k.endswith("encoding") else None)
                  for k in ("minishard_bits", "shard_bits", "preshift_bits",
                            "minishard_index_encoding", "data_encoding")}
        # (zlib streams where gzip is declared are C04's listed finding;
        # accepted here)
        from vlib.refs import sharded_spec
        ref = sharded_spec.read(os.path.join(path, "s1"), params,
                                sc.chunk_id(pos, case["grid"]),
                                strict_gzip=False)
        if ref != want:
            ctx.fail("%s: a reader following the format description finds "
                     "%r for chunk %s of the second scale, stored %r... "
                     "(sharding of the scale %s)" % (
                         what, None if ref is None else ref[:8], list(pos),
                         want[:8], s1["sharding"]))


def check_case(ctx, case):
    order1 = [tuple(p) for p in case["order"]]
    order2 = [tuple(p) for p in case["order2"]]
    ref_order = sorted(order1, key=lambda p: sc.chunk_id(p, case["grid"]))
    base = ctx.tmpdir("c05")
    try:
        trees = []
        for name, order, strat in (("ref", ref_order, "in memory"),
                                   ("h1", order1, case["strategy"]),
                                   ("h2", order2, case["strategy2"])):
            d = os.path.join(base, name)
            try:
                store(d, case, order, strat, case.get("two_scales", False))
            except Exception as exc:
                from vlib.runner import _from_repo
                if not _from_repo(exc):
                    raise
                ctx.fail("storing in order %s with strategy %r failed: %s %s "
                         "(grid %s bits %s)" % (
                             [list(p) for p in order][:8], strat,
                             type(exc).__name__, exc, case["grid"],
                             case["bits"]))
            trees.append(shard_tree(d))
        for name, t in zip(("history 1", "history 2"), trees[1:]):
            if t != trees[0]:
                diff = sorted(set(t.items()) ^ set(trees[0].items()))[:3]
                ctx.fail("%s (order %s, %s) produced shard files that differ "
                         "from the sorted in-memory reference: %s (grid %s "
                         "bits %s enc %s/%s)" % (
                             name, case["order"][:8] if name == "history 1"
                             else case["order2"][:8], case["strategy"]
                             if name == "history 1" else case["strategy2"],
                             diff, case["grid"], case["bits"],
                             case["index_enc"], case["data_enc"]))
        read_back(ctx, os.path.join(base, "h1"), case, order1, "history 1")
        if case.get("two_scales", False):
            read_back_second(ctx, os.path.join(base, "h1"), case, order1,
                             "history 1")
        return True
    finally:
        ctx.rmtree(base)


@st.composite
def pair_cases(draw):
    c = draw(sc.shard_cases(max_grid=5, min_chunks=1))
    c["order2"] = [list(p) for p in draw(st.permutations(
        [tuple(p) for p in c["order"]]))]
    c["strategy2"] = draw(st.sampled_from(["on disk", "in memory"]))
    c["two_scales"] = draw(st.integers(0, 4)) == 0
    return c


@st.composite
def many_shard_cases(draw):
    """64..216 chunks spread over more than 32 / 64 shards, most of the grid
    stored, random orders (a shard is revisited after many others)."""
    grid = [draw(st.integers(4, 6)) for _ in range(3)]
    positions = sc.grid_positions(grid)
    drop = draw(st.lists(st.sampled_from(positions), unique=True,
                         max_size=6))
    subset = [p for p in positions if p not in drop]
    order = draw(st.permutations(subset))
    c = {"grid": grid, "cs": draw(st.sampled_from([1, 2])), "rem": [0, 0, 0],
         "bits": [draw(st.integers(0, 2)), draw(st.integers(5, 8)),
                  draw(st.integers(0, 1))],
         "index_enc": draw(st.sampled_from(["raw", "gzip"])),
         "data_enc": draw(st.sampled_from(["raw", "gzip"])),
         "order": [list(p) for p in order],
         "strategy": draw(st.sampled_from(["on disk", "in memory"])),
         "seed": draw(st.integers(0, 2 ** 16))}
    kind = draw(st.sampled_from(["shuffle", "raster_x", "raster_z"]))
    if kind == "raster_x":
        c["order2"] = [list(p) for p in sorted(subset, key=lambda p: (
            p[2], p[1], p[0]))]
    elif kind == "raster_z":
        c["order2"] = [list(p) for p in sorted(subset)]
    else:
        c["order2"] = [list(p) for p in draw(st.permutations(subset))]
    c["strategy2"] = draw(st.sampled_from(["on disk", "in memory"]))
    c["two_scales"] = False
    return c


def run_many_shards(ctx, n):
    from vlib.refs import morton as mt

    def check(ctx, case):
        check_case(ctx, case)
        mini, shard, pre = case["bits"]
        shards = {mt.route(sc.chunk_id(tuple(p), case["grid"]), pre, mini,
                           shard)[0] for p in case["order"]}
        ctx.record(case, len(shards) > 32, ["shards>32" if len(shards) > 32
                                            else "shards<=32",
                                            "shards>64" if len(shards) > 64
                                            else "shards<=64"])
    ctx.run_hypothesis(many_shard_cases(), check, n)


def run_pairs(ctx, n):
    def check(ctx, case):
        if not case["order"]:
            return
        check_case(ctx, case)
        b1, g1 = buffered_and_gap(case, [tuple(p) for p in case["order"]])
        b2, _ = buffered_and_gap(case, [tuple(p) for p in case["order2"]])
        ctx.record(case, (b1 or b2) and g1, [
            "buffered" if (b1 or b2) else "inorder",
            "gap" if g1 else "nogap", case["strategy"] + "/" +
            case["strategy2"], "two_scales" if case["two_scales"]
            else "one_scale", "idx." + case["index_enc"],
            "data." + case["data_enc"]])
    ctx.run_hypothesis(pair_cases(), check, n)


# ---- exhaustive permutations of all subsets of a 2x2x2 grid ------------------
QUICK_TRIPLES = [(0, 0, 0), (1, 1, 0), (1, 0, 1), (2, 1, 1), (0, 2, 0),
                 (2, 0, 2)]


def run_exhaustive(ctx, n):
    grid = [2, 2, 2]
    positions = sc.grid_positions(grid)
    triples = QUICK_TRIPLES if ctx.tier == "quick" else list(
        itertools.product(range(3), repeat=3))
    jobs = [(t, k) for t in triples for k in range(1, 2 ** 8)]
    mine = jobs[ctx.shard::ctx.nshards]
    rng = np.random.default_rng(ctx.hseed)
    evals = nt = 0
    base = ctx.tmpdir("perm")
    try:
        for t, mask in mine:
            subset = [positions[i] for i in range(8) if mask >> i & 1]
            case = {"grid": grid, "cs": 2, "rem": [0, 1, 0], "bits": list(t),
                    "index_enc": "raw", "data_enc": "raw" if mask % 2
                    else "gzip", "seed": mask}
            ref = sorted(subset, key=lambda p: sc.chunk_id(p, grid))
            d = os.path.join(base, "ref")
            try:
                with case_timer():
                    store(d, case, ref, "in memory")
            except Exception as exc:  # noqa
                c = dict(case, order=[list(p) for p in ref],
                         order2=[list(p) for p in ref], strategy="in memory",
                         strategy2="in memory")
                ctx.violations.append({
                    "sub": "perm_exhaustive", "case": c, "message":
                    "storing the sorted reference failed: %s %s" % (
                        type(exc).__name__, exc)})
                return
            ref_tree = shard_tree(d)
            try:
                read_back(ctx, d, case, ref, "sorted reference")
            except AssertionError as exc:
                c = dict(case, order=[list(p) for p in ref],
                         order2=[list(p) for p in ref], strategy="in memory",
                         strategy2="in memory")
                ctx.violations.append({"sub": "perm_exhaustive", "case": c,
                                       "message": str(exc)})
                return
            ctx.rmtree(d)
            if len(subset) <= 5:
                perms = list(itertools.permutations(subset))
            else:
                perms = [tuple(rng.permutation(len(subset)).tolist())
                         for _ in range(20)]
                perms = [tuple(subset[i] for i in p) for p in perms]
            for j, perm in enumerate(perms):
                strat = "on disk" if j % 7 == 0 else "in memory"
                d = os.path.join(base, "p")
                msg = None
                try:
                    with case_timer():
                        store(d, case, list(perm), strat)
                    if shard_tree(d) != ref_tree:
                        msg = ("store order %s (%s) produced shard files "
                               "that differ from the sorted reference (bits "
                               "%s)" % ([list(p) for p in perm], strat,
                                        list(t)))
                except Exception as exc:  # noqa
                    msg = "store order %s failed: %s %s (bits %s)" % (
                        [list(p) for p in perm], type(exc).__name__, exc,
                        list(t))
                ctx.rmtree(d)
                evals += 1
                if list(perm) != ref and len(subset) < 8:
                    nt += 1
                if msg:
                    c = dict(case, order=[list(p) for p in perm],
                             order2=[list(p) for p in ref], strategy=strat,
                             strategy2="in memory")
                    ctx.violations.append({"sub": "perm_exhaustive",
                                           "case": c, "message": msg})
                    return
        ctx.sample({"grid": grid, "triples": [list(t) for t in triples[:4]],
                    "subsets": "all 255", "permutations": "all (<=5 chunks)"})
    finally:
        ctx.bulk(evals, nt)
        ctx.rmtree(base)


# ---- thousands of shards, each revisited after thousands of others -------------
def check_huge(ctx, case):
    """8192 (or more) shards of two chunks each: all chunks with an even
    identifier first, then all odd ones, so that every shard is written to
    again after every other shard has been opened in between.  Compared with
    the same chunks stored in identifier order."""
    from neuroglancer_scripts import accessor
    grid = case["grid"]
    full = {"grid": grid, "cs": 1, "rem": [0, 0, 0], "bits": case["bits"],
            "index_enc": "raw", "data_enc": "raw", "seed": case["seed"]}
    positions = sorted(sc.grid_positions(grid),
                       key=lambda p: sc.chunk_id(p, grid))
    order = [p for p in positions if sc.chunk_id(p, grid) % 2 == 0] + \
        [p for p in positions if sc.chunk_id(p, grid) % 2]
    base = ctx.tmpdir("c05huge")
    try:
        store(os.path.join(base, "ref"), full, positions, "in memory")
        store(os.path.join(base, "h"), full, order, case["strategy"])
        a, b = shard_tree(os.path.join(base, "ref")), shard_tree(
            os.path.join(base, "h"))
        if a != b:
            diff = sorted(set(a.items()) ^ set(b.items()))
            ctx.fail("%d shard files differ between identifier order and "
                     "even-then-odd order (%d chunks, bits %s, %s), e.g. %s" % (
                         len({d_[0] for d_ in diff}), len(positions),
                         case["bits"], case["strategy"], diff[0][0]))
        acc = accessor.get_accessor_for_url(os.path.join(base, "h"))
        step = max(1, len(positions) // 400)
        for p_ in positions[::step] + positions[-3:]:
            arr, cc = chunk_array(full, p_)
            got = acc.fetch_chunk(sc.KEY, cc)
            if bytes(got) != arr.tobytes():
                ctx.fail("chunk %s reads back as %d bytes that differ from "
                         "the stored ones (%d shards)" % (
                             list(p_), len(got), len(a)))
        return len(a)
    finally:
        ctx.rmtree(base)


def run_huge(ctx, n):
    cases = [{"huge": True, "grid": [32, 32, 16], "bits": [0, 13, 1],
              "strategy": "on disk"},
             {"huge": True, "grid": [20, 33, 31], "bits": [0, 14, 1],
              "strategy": "in memory"}]
    for k, case in enumerate(cases[:max(1, n)]):
        case = dict(case, seed=ctx.seed + k)
        try:
            nshards = check_huge(ctx, case)
        except AssertionError as exc:
            if type(exc).__name__ != "Violation":
                raise
            ctx.violations.append({"sub": "huge_shards", "case": case,
                                   "message": str(exc)})
            return
        ctx.record(case, True, ["shards%d" % nshards])


def replay(ctx, case):
    if case.get("huge"):
        return check_huge(ctx, case)
    case = dict(case)
    case.setdefault("two_scales", False)
    check_case(ctx, case)


SUBS = [
    Sub("pairs", run_pairs, replay, quick=1200, thorough=60000),
    Sub("many_shards", run_many_shards, replay, quick=84, thorough=8000,
        min_per_shard=6),
    Sub("perm_exhaustive", run_exhaustive, replay, quick=1, thorough=1,
        shards=14, sweep=True),
    Sub("huge_shards", run_huge, replay, quick=1, thorough=2, shards=1),
]
