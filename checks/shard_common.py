"""Shared generators / helpers for the sharded-storage checks (C04, C05, C14,
C18)."""
import hashlib
import json
import os

from hypothesis import strategies as st

from vlib import datasets as ds
from vlib.refs import morton, sharded_spec

KEY = "s0"


BIG_SEED = 2 ** 17


def payload(seed, pos, maxlen=48):
    """Deterministic chunk payload.  Seeds >= BIG_SEED give payloads of
    66..117 KB (beyond 4 KiB read blocks and 64 KiB buffers)."""
    h = hashlib.blake2b(repr((seed, tuple(pos))).encode(),
                        digest_size=48).digest()
    if seed >= BIG_SEED:
        n = 66000 + 200 * h[0]
        return (h * (n // 48 + 1))[:n]
    n = 1 + h[0] % maxlen
    return h[1:1 + n] if n < 48 else h


def grid_positions(grid):
    return [(x, y, z) for z in range(grid[2]) for y in range(grid[1])
            for x in range(grid[0])]


def coords_of(pos, cs, size):
    c = []
    for p, s in zip(pos, size):
        c += [p * cs, min((p + 1) * cs, s)]
    return tuple(c)


def scale_info(case):
    grid, cs = case["grid"], case["cs"]
    size = [g * cs - r for g, r in zip(grid, case["rem"])]
    mini, shard, pre = case["bits"]
    return ds.make_scale(KEY, size, [cs, cs, cs], "raw", sharding=ds.
                         sharding_dict(mini, shard, pre, case["index_enc"],
                                       case["data_enc"]))


def params_of(case):
    mini, shard, pre = case["bits"]
    return {"minishard_bits": mini, "shard_bits": shard,
            "preshift_bits": pre,
            "minishard_index_encoding": case["index_enc"],
            "data_encoding": case["data_enc"]}


def write_info(path, case, data_type="uint8", channels=1):
    os.makedirs(path, exist_ok=True)
    info = ds.make_info(data_type, channels, [scale_info(case)])
    with open(os.path.join(path, "info"), "w") as f:
        json.dump(info, f)
    return info


def store_all(path, case, order, strategy):
    """Store the chunks of `order` (list of positions) through the package's
    sharded writer and close it."""
    from neuroglancer_scripts.sharded_file_accessor import ShardedFileAccessor
    sc = scale_info(case)
    acc = ShardedFileAccessor(path, strategy=strategy)
    for pos in order:
        buf = payload(case["seed"], pos)
        # "a bytes buffer": the encoders hand over bytes or a bytearray; a
        # flat byte view is the third spelling of the same thing
        rep = (buf[0] + len(buf)) % 4
        if rep == 1:
            buf = bytearray(buf)
        elif rep == 2:
            buf = memoryview(buf)
        acc.store_chunk(buf, KEY, coords_of(pos, case["cs"], sc["size"]))
        if rep == 1:
            # the caller's buffer is its own again once the call has returned
            # (an encoder that re-uses one output buffer for every chunk)
            buf[:] = b"\xee" * len(buf)
    acc.close()
    return acc


def chunk_id(pos, grid):
    return morton.compressed_morton_code(pos, grid)


bits_st = st.one_of(
    st.tuples(st.integers(0, 3), st.integers(0, 3), st.integers(0, 3)),
    st.tuples(st.integers(0, 5), st.integers(0, 5), st.integers(0, 6)),
    st.tuples(st.integers(0, 2), st.sampled_from([0, 1, 60, 64, 70]),
              st.sampled_from([0, 1, 9, 64, 70])),
    # more than 32 / 64 shards for grids of 40+ chunks
    st.tuples(st.integers(0, 1), st.integers(6, 8), st.integers(0, 1)))


@st.composite
def shard_cases(draw, max_grid=5, min_chunks=1):
    g = st.one_of(st.integers(1, max_grid), st.sampled_from([1, 2, 3]))
    grid = [draw(g), draw(g), draw(g)]
    cs = draw(st.sampled_from([1, 2, 4, 64]))
    rem = [draw(st.integers(0, cs - 1)) for _ in range(3)]
    positions = grid_positions(grid)
    if draw(st.integers(0, 3)) == 0:
        subset = list(positions)
    else:
        subset = draw(st.lists(st.sampled_from(positions), unique=True,
                               min_size=min(min_chunks, len(positions))))
    order = draw(st.permutations(subset)) if subset else []
    seed = draw(st.integers(0, 2 ** 16))
    if len(order) <= 6 and draw(st.integers(0, 5)) == 0:
        seed = BIG_SEED + draw(st.integers(0, 50))
    return {"grid": grid, "cs": cs, "rem": rem, "bits": list(draw(bits_st)),
            "index_enc": draw(st.sampled_from(["raw", "gzip"])),
            "data_enc": draw(st.sampled_from(["raw", "gzip"])),
            "order": [list(p) for p in order],
            "strategy": draw(st.sampled_from(["on disk", "in memory"])),
            "seed": seed}


def routing_stats(case):
    """(populated (shard, minishard) pairs, non-contiguous?)"""
    mini, shard, pre = case["bits"]
    pairs = set()
    for pos in case["order"]:
        pairs.add(morton.route(chunk_id(pos, case["grid"]), pre, mini, shard))
    by_shard = {}
    for s, m in pairs:
        by_shard.setdefault(s, set()).add(m)
    noncontig = any(sorted(ms) != list(range(len(ms)))
                    for ms in by_shard.values())
    return pairs, noncontig


def spec_read(ctx, scale_dir, params, cid):
    """Spec-only read; the RFC 1950 vs 1952 discrepancy is listed finding
    F-zlib (counted), everything else is still checked with zlib accepted."""
    try:
        return sharded_spec.read(scale_dir, params, cid, strict_gzip=True)
    except sharded_spec.NotGzip as exc:
        if ctx.known("Fzlib"):
            return sharded_spec.read(scale_dir, params, cid,
                                     strict_gzip=False)
        ctx.fail("data declared as gzip is not an RFC 1952 gzip stream: %s"
                 % exc)
