"""C16 - generated metadata and transform place the image correctly in space."""
import json
import os

import numpy as np
from hypothesis import strategies as st

from vlib import nifti
from vlib.refs import dtype_ref
from vlib.runner import Sub

PROPERTY = "C16"
META = {
    "level": "exploration",
    "rule": ("Hypothesis draws an affine (quaternion rotation x shear x "
             "signed voxel sizes 0.001..50 mm, any translation), a shape, a "
             "layout (3-D / 4-D / RGB), a stored dtype with or without header "
             "scaling, and a sharding option string; non-trivial = the "
             "affine is not diagonal or has a negative determinant; distinct "
             "by the whole case."
             ' Also: almost axis-aligned rotations, a second --generate-in'
             'fo run into the same destination, the compact URL form compu'
             'ted from Python floats and NumPy scalars.'
             " Round 12: NIfTI headers with qform and sform both set (equal / different) or the qform alone."
             " Round 17: pixdim / qform voxel sizes that differ from the sform's column norms."
             " Round 18: rerun with an image of the same grid and another affine."
             " Round 21: a destination that still holds the info of the volume before resampling; sub-check scaling_grid enumerates stored type x slope (exactly 1 included) x intercept x --ignore-scaling x api/cli."),
    "trusted_base": ["nibabel (writes the file, reports the affine the tool "
                     "sees)", "float64 arithmetic with relative tolerance "
                     "1e-9"],
}

STORED = ["int8", "uint8", "int16", "uint16", "int32", "uint32", "int64",
          "uint64", "float32", "float64"]
NG = ["uint8", "uint16", "uint32", "uint64", "float32"]


@st.composite
def affine_st(draw):
    kind = draw(st.sampled_from(["diag", "rot", "rot", "shear", "tilt"]))
    vs = [draw(st.one_of(st.sampled_from([1.0, 0.5, 0.02, 2.0, 50.0, 0.001]),
                         st.floats(0.001, 50))) * draw(
                             st.sampled_from([1, 1, -1])) for _ in range(3)]
    A = np.diag(vs)
    if kind != "diag":
        q = np.array([draw(st.floats(-1, 1)) for _ in range(4)])
        if kind == "tilt":
            # an almost axis-aligned acquisition: a rotation by a tiny angle,
            # direction cosines within 1e-12 of whole numbers without being
            # whole numbers
            eps = draw(st.sampled_from([1e-6, 5e-7, 1e-7, 3e-6, 1e-5, 1e-8]))
            axis = draw(st.integers(1, 3))
            q = np.array([1.0, 0.0, 0.0, 0.0])
            q[axis] = eps / 2
        if np.linalg.norm(q) < 1e-2:
            q = np.array([1.0, 0.2, 0.3, 0.4])
        w, x, y, z = q / np.linalg.norm(q)
        R = np.array([[1 - 2 * (y * y + z * z), 2 * (x * y - z * w),
                       2 * (x * z + y * w)],
                      [2 * (x * y + z * w), 1 - 2 * (x * x + z * z),
                       2 * (y * z - x * w)],
                      [2 * (x * z - y * w), 2 * (y * z + x * w),
                       1 - 2 * (x * x + y * y)]])
        S = np.eye(3)
        if kind == "shear":
            S[0, 1] = draw(st.floats(-0.5, 0.5))
            S[1, 2] = draw(st.floats(-0.5, 0.5))
        A = R @ S @ A
    M = np.eye(4)
    M[:3, :3] = A
    M[:3, 3] = [draw(st.one_of(st.just(0.0), st.floats(-1000, 1000)))
                for _ in range(3)]
    return {"kind": kind, "matrix": M.tolist()}


sharding_st = st.one_of(
    st.none(), st.none(),
    st.tuples(st.integers(0, 10), st.integers(0, 10), st.integers(0, 10)).map(
        lambda t: "%d,%d,%d" % t),
    st.sampled_from(["1,2", "a,b,c", "1,2,3,4", "-1,2,3", "1.5,2,3", "1;2;3",
                     "1,,3"]))


@st.composite
def cases(draw):
    layout = draw(st.sampled_from(["3d", "3d", "4d", "rgb"]))
    shape = [draw(st.integers(1, 5)) for _ in range(3)]
    if layout == "4d":
        shape.append(draw(st.integers(1, 3)))
    dtype = "rgb" if layout == "rgb" else draw(st.sampled_from(STORED))
    scaling = None
    if layout != "rgb" and draw(st.booleans()):
        scaling = [draw(st.sampled_from([0.5, 2.0, 1.0, 0.1, 3.7, 1e-3])),
                   draw(st.sampled_from([0.0, -3.0, 100.5, 0.25]))]
    return {"shape": shape, "layout": layout, "dtype": dtype,
            "scaling": scaling, "affine": draw(affine_st()),
            "ignore_scaling": draw(st.booleans()),
            "sharding": draw(sharding_st), "gzip": draw(st.booleans()),
            "cli": draw(st.booleans()),
            "rerun": draw(st.integers(0, 3)) == 0,
            "units": draw(st.sampled_from([None, None, "mm", "micron",
                                           "meter"])),
            "seed": draw(st.integers(0, 2 ** 31)),
            # which header coordinate system carries the affine: the sform
            # alone (what most tools write), both (equal or different: the
            # sform counts), the qform alone
            "xforms": draw(st.sampled_from([None, None, "both_same",
                                            "both_differ", "both_differ",
                                            "qform_only"])),
            "gz": draw(st.booleans())}


def make_raw(case):
    rng = np.random.default_rng(case["seed"])
    shape = tuple(case["shape"])
    if case["layout"] == "rgb":
        raw = np.zeros(shape, dtype=nifti.RGB_DTYPE, order="F")
        for ch in "RGB":
            raw[ch] = rng.integers(0, 256, size=shape)
        return raw
    dt = np.dtype(case["dtype"])
    if dt.kind == "f":
        vals = rng.normal(0, 1000, size=shape).astype(dt)
    else:
        ii = np.iinfo(dt)
        vals = rng.integers(ii.min, ii.max, size=shape, dtype=dt,
                            endpoint=True)
        flat = vals.reshape(-1)
        flat[0] = ii.max
        if flat.size > 1:
            flat[1] = ii.min
    return np.asfortranarray(vals)


def valid_sharding(s):
    parts = s.split(",")
    if len(parts) != 3:
        return None
    try:
        v = [int(p) for p in parts]
    except ValueError:
        return None
    if any(x < 0 for x in v):
        return None
    return v


def check_case(ctx, case):
    import nibabel as nib
    from neuroglancer_scripts import transform as tr
    from neuroglancer_scripts import volume_reader as vr
    from neuroglancer_scripts.scripts import volume_to_precomputed as v2p
    d = ctx.tmpdir("meta")
    try:
        raw = make_raw(case)
        path = os.path.join(d, "vol.nii" + (".gz" if case["gz"] else ""))
        slope, inter = case["scaling"] or (None, None)
        nifti.write_nifti(path, raw, case["affine"]["matrix"], slope, inter,
                          xyz_units=case.get("units"),
                          xforms=case.get("xforms"))
        img, ok = nifti.load_checked(path, raw, slope, inter)
        if not ok:
            ctx.count("precondition_failed")
            return None
        A = np.array(img.affine, dtype=float)
        options = {"gzip": case["gzip"]}
        if case["sharding"] is not None:
            options["sharding"] = case["sharding"]
        want_shard = (valid_sharding(case["sharding"])
                      if case["sharding"] else None)
        expect_error = bool(case["sharding"]) and want_shard is None
        dest = os.path.join(d, "out")
        try:
            if case["cli"]:
                argv = ["volume-to-precomputed", path, dest, "--generate-info"]
                if case["ignore_scaling"]:
                    argv.append("--ignore-scaling")
                if case["sharding"] is not None:
                    argv += ["--sharding=" + case["sharding"]]
                if not case["gzip"]:
                    argv.append("--no-gzip")
                A_first = None
                if (case["seed"] // 7) % 3 == 0 and not case.get("rerun") \
                        and case["sharding"] is None:
                    # redoing the metadata after resampling the volume: the
                    # destination still holds the `info` generated for an
                    # image with other voxel sizes, while info_fullres.json
                    # and transform.json have been deleted
                    from neuroglancer_scripts.scripts import (
                        generate_scales_info as gsi)
                    M0 = np.array(case["affine"]["matrix"], dtype=float)
                    M0[:3, :3] = M0[:3, :3] @ np.diag([2.0, 0.5, 3.0])
                    path0 = os.path.join(d, "before_resampling.nii")
                    nifti.write_nifti(path0, raw, M0, slope, inter)
                    img0, ok0 = nifti.load_checked(path0, raw, slope, inter)
                    if ok0 and v2p.main([argv[0], path0] + argv[2:]) in (0,
                                                                         4):
                        try:
                            gsi.generate_scales_info(
                                os.path.join(dest, "info_fullres.json"),
                                dest, target_chunk_size=4)
                        except Exception:     # noqa - C08 judges that tool
                            ctx.rmtree(dest)
                        else:
                            os.remove(os.path.join(dest,
                                                   "info_fullres.json"))
                            os.remove(os.path.join(dest, "transform.json"))
                            ctx.count("stale_info_of_another_volume")
                    elif os.path.isdir(dest):
                        ctx.rmtree(dest)
                if case.get("rerun") and not expect_error:
                    # the destination already holds the description of an
                    # earlier image (same voxels, another affine)
                    M1 = np.array(case["affine"]["matrix"], dtype=float)
                    M1[:3, 3] += [5.0, -3.0, 2.0]
                    if case["seed"] % 2:
                        M1[:3, 0] *= 2.0
                    else:
                        # same grid and voxel sizes, another orientation and
                        # origin (a corrected left-right flip): the info
                        # files of the two images are identical, only the
                        # transforms differ
                        M1[:3, 0] *= -1.0
                    path1 = os.path.join(d, "first.nii")
                    nifti.write_nifti(path1, raw, M1, slope, inter)
                    img1, ok1 = nifti.load_checked(path1, raw, slope, inter)
                    if ok1:
                        rc1 = v2p.main([argv[0], path1] + argv[2:])
                        if rc1 not in (0, 4):
                            ctx.fail("--generate-info returned %r" % rc1)
                        A_first = np.array(img1.affine, dtype=float)
                try:
                    rc = v2p.main(argv)
                except OSError:
                    # (the sharded accessor refuses an existing file with a
                    # plain OSError that ends the command with a traceback:
                    # a refusal as well)
                    if A_first is None:
                        raise
                    rc = 1
                if A_first is not None and rc not in (0, 4):
                    # refused: the two files must still describe the earlier
                    # image, consistently
                    A = A_first
                    ctx.count("rerun_refused")
                elif rc not in (0, 4):
                    ctx.fail("--generate-info returned %r" % rc)
                elif A_first is not None:
                    ctx.count("rerun_accepted")
                formatted = open(os.path.join(dest,
                                              "info_fullres.json")).read()
                T = json.load(open(os.path.join(dest, "transform.json")))
            else:
                img2 = nib.load(path)
                formatted, T, in_dt, imperfect = vr.nibabel_image_to_info(
                    img2, ignore_scaling=case["ignore_scaling"],
                    options=options)
                # the same image object may be described more than once
                # (e.g. a dry run, then the real run): same answer expected
                formatted_b, T_b, _, _ = vr.nibabel_image_to_info(
                    img2, ignore_scaling=case["ignore_scaling"],
                    options=options)
                if json.loads(formatted_b) != json.loads(formatted) or \
                        np.asarray(T_b).tolist() != np.asarray(T).tolist():
                    ctx.fail("describing the same image object a second time "
                             "gives a different info / transform: %s vs %s" %
                             (np.asarray(T_b).tolist(),
                              np.asarray(T).tolist()))
                if not np.array_equal(np.asarray(img2.affine), A):
                    ctx.fail("nibabel_image_to_info modified the image's "
                             "affine")
        except SystemExit as exc:
            ctx.fail("command exited with %r" % (exc.code,))
        except Exception as exc:
            if expect_error:
                return False
            raise
        if expect_error:
            ctx.fail("malformed sharding string %r was accepted" %
                     case["sharding"])
        info = json.loads(formatted)
        shape = case["shape"]
        if info["scales"][0]["size"] != shape[:3]:
            ctx.fail("size %s, expected %s" % (info["scales"][0]["size"],
                                               shape[:3]))
        nch = 3 if case["layout"] == "rgb" else (
            shape[3] if len(shape) > 3 else 1)
        if info["num_channels"] != nch:
            ctx.fail("num_channels %r, expected %d" % (info["num_channels"],
                                                       nch))
        if info["data_type"] not in NG:
            ctx.fail("data_type %r is not a Neuroglancer type" %
                     info["data_type"])
        # the data type holds the values
        if case["layout"] == "rgb":
            vals = np.stack([raw[c] for c in "RGB"]).astype(float).ravel()
        else:
            img3 = nib.load(path)
            if case["ignore_scaling"]:
                vals = np.asarray(img3.dataobj.get_unscaled()).ravel()
            else:
                vals = np.asanyarray(img3.dataobj).ravel()
        dt = info["data_type"]
        for v in vals.tolist()[:64]:
            if dt == "float32":
                if abs(v) > 3e38:
                    continue
                r = float(np.float32(v))
                if abs(r - v) > 2.0 ** -24 * abs(v):
                    ctx.fail("data_type float32 cannot hold value %r" % v)
            else:
                lo, hi = dtype_ref.INT_RANGE[dt]
                if v != int(v) or not lo <= int(v) <= hi:
                    ctx.fail("data_type %s cannot hold value %r (stored %s, "
                             "scaling %s)" % (dt, v, case["dtype"],
                                              case["scaling"]))
        # resolution.  The tool reads affines as millimetres (1e6 nm per
        # unit) whatever unit the header declares; a tool that honoured the
        # declared unit would be right as well - but resolution and transform
        # must then use the SAME factor (checked below with `nm`).
        vs = np.sqrt((A[:3, :3] ** 2).sum(axis=0))
        res = np.array(info["scales"][0]["resolution"], dtype=float)
        nm = 1e6
        declared = {"micron": 1e3, "meter": 1e9, "mm": 1e6}.get(
            case.get("units"))
        if declared and declared != 1e6 and np.all(
                np.abs(res - vs * declared) <= 1e-9 * vs * declared):
            nm = declared
            ctx.count("declared_unit_honoured")
        if np.any(np.abs(res - vs * nm) > 1e-9 * vs * nm):
            ctx.fail("resolution %s, expected %s nm" % (res.tolist(),
                                                        (vs * nm).tolist()))
        # centre/corner identity
        T = np.array(T, dtype=float)
        if T.shape != (4, 4) or T[3].tolist() != [0, 0, 0, 1]:
            ctx.fail("transform is not a 4x4 homogeneous matrix: %s" % T)
        n = np.array(shape[:3])
        idx = [[0, 0, 0], (n - 1).tolist(), [n[0] - 1, 0, 0],
               [0, n[1] - 1, n[2] - 1], (n // 2).tolist(), [7, -3, 11]]
        extent = nm * (np.abs(A[:3, :3]) @ np.maximum(n, 12)).max() + nm * \
            np.abs(A[:3, 3]).max()
        for i in idx:
            i = np.array(i, dtype=float)
            ng = T @ np.append((i + 0.5) * res, 1.0)
            nii = nm * (A @ np.append(i, 1.0))
            if np.abs(ng[:3] - nii[:3]).max() > 1e-9 * extent:
                ctx.fail("voxel %s: Neuroglancer places its centre at %s nm, "
                         "the NIfTI affine at %s nm" % (
                             i.tolist(), ng[:3].tolist(), nii[:3].tolist()))
        # compact URL form
        # (given as Python floats and as NumPy scalars - the library itself
        # passes the NumPy values it has computed)
        for rows in (T.tolist(), [[np.float64(x) for x in row] for row in T]):
            s = tr.matrix_as_compact_urlsafe_json(rows)
            if any(ch in s for ch in ", \n\t\"'"):
                ctx.fail("compact form %r is not URL-safe" % s)
            back = np.array(json.loads(s.replace("_", ",")), dtype=float)
            if back.shape != (4, 4) or not np.array_equal(back, T):
                ctx.fail("compact URL form %r does not parse back to the "
                         "matrix %s" % (s, T.tolist()))
        # sharding
        sh = info["scales"][0].get("sharding")
        if want_shard is None:
            if sh is not None:
                ctx.fail("unexpected sharding key %r" % sh)
        else:
            enc = "gzip" if case["gzip"] else "raw"
            exp = {"@type": "neuroglancer_uint64_sharded_v1",
                   "minishard_bits": want_shard[0],
                   "shard_bits": want_shard[1],
                   "preshift_bits": want_shard[2], "hash": "identity",
                   "minishard_index_encoding": enc, "data_encoding": enc}
            if sh != exp:
                ctx.fail("sharding spec %r, expected %r" % (sh, exp))
        return True
    finally:
        ctx.rmtree(d)


def run(ctx, n):
    def check(ctx, case):
        r = check_case(ctx, case)
        if r is None:
            return
        A = np.array(case["affine"]["matrix"])[:3, :3]
        nt = case["affine"]["kind"] != "diag" or np.linalg.det(A) < 0
        ctx.record(case, nt, [case["layout"], case["dtype"],
                              "cli" if case["cli"] else "api",
                              "scaled" if case["scaling"] else "unscaled",
                              "header." + str(case.get("xforms")
                                              or "sform_only"),
                              "shard.%s" % ("none" if not case["sharding"]
                                            else "ok" if valid_sharding(
                                                case["sharding"]) else "bad")])
    ctx.run_hypothesis(cases(), check, n)


def grid_cases():
    """Every stored type x header slope (exactly 1 included) x intercept x
    --ignore-scaling, on one small rotated volume, through the library call
    and the command."""
    M = [[0.0, -1.5, 0.0, 10.0], [2.0, 0.0, 0.0, -4.0],
         [0.0, 0.0, 0.5, 3.0], [0.0, 0.0, 0.0, 1.0]]
    out = []
    for dt in STORED:
        for slope in (1.0, 0.5, 2.0):
            for inter in (0.0, -3.0, 100.5, 0.25):
                for ign in (False, True):
                    for cli in (False, True):
                        out.append({
                            "shape": [3, 2, 2], "layout": "3d", "dtype": dt,
                            "scaling": [slope, inter],
                            "affine": {"kind": "rot", "matrix": M},
                            "ignore_scaling": ign, "sharding": None,
                            "gzip": True, "cli": cli, "rerun": False,
                            "units": None, "seed": 1 + len(out),
                            "xforms": None, "gz": False})
    return out


def run_scaling_grid(ctx, n):
    def check(ctx, case):
        r = check_case(ctx, case)
        if r is None:
            return
        ctx.record(case, case["scaling"][1] != 0 or case["scaling"][0] != 1,
                   ["grid." + case["dtype"],
                    "slope.%g" % case["scaling"][0],
                    "cli" if case["cli"] else "api"])
    ctx.run_grid(grid_cases(), check)


def replay(ctx, case):
    check_case(ctx, case)


SUBS = [Sub("metadata", run, replay, quick=1500, thorough=480000),
        Sub("scaling_grid", run_scaling_grid, replay, quick=1, thorough=1,
            shards=8, sweep=True)]
