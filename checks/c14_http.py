"""C14 - reading over HTTP gives the same bytes as reading the files locally."""
import collections
import json
import os
import shutil
import urllib.parse

import numpy as np
from hypothesis import strategies as st

from checks import shard_common as sc
from vlib import datasets as ds
from vlib import httpd
from vlib.refs import morton, sharded_spec
from vlib.runner import Sub

PROPERTY = "C14"
META = {
    "level": "exploration",
    "rule": ("Hypothesis draws a dataset (plain: flat layout, or deep layout "
             "served with the documented rewrite, gzip on/off; sharded: "
             ".shard files written by the package, legacy .index/.data "
             "pairs, or foreign shards written by a spec-only writer; any "
             "grid, bit triple and encoding; mixed infos), a URL spelling "
             "and, for the fault sub-check, a (request index, server "
             "behaviour) pair for every request of the operation. "
             "non-trivial = sharded dataset with >= 2 minishards, or a fault "
             "on a request other than the first; distinct by the whole "
             "case."
             ' Also: directory names that need percent-encoding; multiscal'
             'e: 2-3 scales with their own size / chunk size / sharding pa'
             'rameters; faults_all: every request x every fault kind; big_'
             'chunk: 4-9 MiB chunks with short / over-long / error replies'
             '.'
             " Round 12: shards of one scale in different layouts; outdated legacy files beside current .shard files."
             " Round 18: the dataset behind the URL generated again while an older accessor is alive."
             " Round 19: scale keys with colons, dots, spaces, '+', a sub-directory."),
    "trusted_base": ["vlib/httpd.py implements docs/serving-data.rst",
                     "requests/urllib3", "vlib/refs/sharded_spec.py writer"],
    "assumptions": ["loopback TCP works in the sandbox", "server faults are "
                    "those listed in the property: 404, 403, 5xx, dropped "
                    "connection; short / over-long replies to Range requests "
                    "(sharded)"],
}

URL_FORMS = ["plain", "noslash", "precomputed", "query", "precomputed_noslash"]


def spell(url, form):
    base = url.rstrip("/")
    if form == "plain":
        return base + "/"
    if form == "noslash":
        return base
    if form == "precomputed":
        return "precomputed://" + base + "/"
    if form == "precomputed_noslash":
        return "precomputed://" + base
    return base + "/?foo=bar#frag"


@st.composite
def dataset_cases(draw):
    # legacy_some: only some shards of the scale are in the legacy layout;
    # stale_legacy: some shards are legacy, the others are current .shard
    # files that have left-over (valid, outdated) .index / .data files of an
    # earlier conversion beside them - the .shard file is the one that counts
    kind = draw(st.sampled_from(["plain_flat", "plain_deep", "shard",
                                 "shard", "legacy", "foreign", "mixed",
                                 "legacy_some", "stale_legacy"]))
    c = draw(sc.shard_cases(max_grid=4, min_chunks=1))
    c["kind"] = kind
    c["gzip"] = draw(st.booleans())
    c["form"] = draw(st.sampled_from(URL_FORMS))
    # directory names that must be percent-encoded in the URL (the standard
    # spelling of such an address)
    c["dirname"] = draw(st.sampled_from(["ds", "ds", "ds", "my data",
                                         "d\u00e9p\u00f4t", "50%"]))
    if kind == "foreign":
        c["index_enc"] = c["data_enc"] = "raw"
    return c


def build_dataset(case, root):
    """Writes the dataset under root/ds; returns the ground truth
    {position: bytes} of the stored chunks."""
    d = os.path.join(root, case.get("dirname", "ds"))
    os.makedirs(d)
    order = [tuple(p) for p in case["order"]]
    truth = {p: sc.payload(case["seed"], p) for p in order}
    kind = case["kind"]
    scale = sc.scale_info(case)
    if kind in ("plain_flat", "plain_deep", "mixed"):
        scale2 = json.loads(json.dumps(scale))
        scale2.pop("sharding")
        scales = [scale2]
        if kind == "mixed":
            s_sh = json.loads(json.dumps(scale))
            s_sh["key"] = "sharded_scale"
            scales.append(s_sh)
        info = ds.make_info("uint8", 1, scales)
        with open(os.path.join(d, "info"), "w") as f:
            json.dump(info, f)
        from neuroglancer_scripts.file_accessor import FileAccessor
        acc = FileAccessor(d, flat=(kind != "plain_deep"), gzip=case["gzip"],
                           compresslevel=1)
        for p in order:
            acc.store_chunk(truth[p], sc.KEY, sc.coords_of(
                p, case["cs"], scale["size"]))
        return d, truth
    sc.write_info(d, case)
    params = sc.params_of(case)
    if kind == "foreign":
        by_shard = {}
        for p in order:
            cid = sc.chunk_id(p, case["grid"])
            s, _ = morton.route(cid, params["preshift_bits"],
                                params["minishard_bits"],
                                params["shard_bits"])
            by_shard.setdefault(s, {})[cid] = truth[p]
        for s, chunks in by_shard.items():
            sharded_spec.write_shard(os.path.join(d, sc.KEY), params, s,
                                     chunks, legacy=case["seed"] % 2 == 0)
        return d, truth
    sc.store_all(d, case, order, "in memory")
    if kind in ("legacy", "legacy_some", "stale_legacy"):
        ilen = 16 * 2 ** params["minishard_bits"]
        sdir = os.path.join(d, sc.KEY)
        stale = {}
        if kind == "stale_legacy":
            for p in order:
                cid = sc.chunk_id(p, case["grid"])
                s, _ = morton.route(cid, params["preshift_bits"],
                                    params["minishard_bits"],
                                    params["shard_bits"])
                stale.setdefault(s, {})[cid] = truth[p][::-1] + b"outdated"
        for n, fn in enumerate(sorted(os.listdir(sdir))):
            if kind != "legacy" and n % 2 != case["seed"] % 2:
                if kind == "stale_legacy":
                    sharded_spec.write_shard(sdir, params, int(fn[:-6], 16),
                                             stale[int(fn[:-6], 16)],
                                             legacy=True)
                continue
            if fn.endswith(".shard"):
                with open(os.path.join(sdir, fn), "rb") as f:
                    data = f.read()
                with open(os.path.join(sdir, fn[:-6] + ".index"), "wb") as f:
                    f.write(data[:ilen])
                with open(os.path.join(sdir, fn[:-6] + ".data"), "wb") as f:
                    f.write(data[ilen:])
                os.unlink(os.path.join(sdir, fn))
    return d, truth


def is_sharded_kind(case):
    return case["kind"] in ("shard", "legacy", "foreign", "legacy_some",
                            "stale_legacy")


def fetch_outcome(acc, key, cc):
    try:
        return ("ok", acc.fetch_chunk(key, cc))
    except Exception as exc:      # noqa
        return ("error", exc)


def check_case(ctx, case):
    from neuroglancer_scripts import accessor, http_accessor
    from neuroglancer_scripts import sharded_http_accessor
    root = ctx.tmpdir("http")
    try:
        d, truth = build_dataset(case, root)
        size = sc.scale_info(case)["size"]
        with httpd.StaticServer(root, rewrite=(case["kind"] == "plain_deep")
                                ) as srv:
            url = spell(srv.url + urllib.parse.quote(case.get("dirname", "ds")),
                        case["form"])
            try:
                acc = accessor.get_accessor_for_url(url)
            except Exception as exc:
                from vlib.runner import _from_repo
                if not _from_repo(exc):
                    raise
                ctx.fail("get_accessor_for_url(%r) failed: %s %s" % (
                    url, type(exc).__name__, exc))
            want_sharded = is_sharded_kind(case)
            got_sharded = isinstance(acc,
                                     sharded_http_accessor.ShardedHttpAccessor)
            if want_sharded != got_sharded:
                ctx.fail("URL of a %s dataset (info %s sharding on every "
                         "scale) is dispatched to %s" % (
                             case["kind"], "declares" if want_sharded
                             else "does not declare", type(acc).__name__))
            if not isinstance(acc, http_accessor.HttpAccessor):
                ctx.fail("http URL gave a %s" % type(acc).__name__)
            local = accessor.get_accessor_for_url(d)
            info_http = acc.fetch_file("info")
            info_local = local.fetch_file("info")
            with open(os.path.join(d, "info"), "rb") as f:
                info_truth = f.read()
            if not (info_http == info_local == info_truth):
                ctx.fail("info over HTTP differs from the local file")
            for pos in sc.grid_positions(case["grid"]):
                cc = sc.coords_of(pos, case["cs"], size)
                h = fetch_outcome(acc, sc.KEY, cc)
                loc = fetch_outcome(local, sc.KEY, cc)
                if pos in truth:
                    if h[0] != "ok":
                        ctx.fail("chunk %s of a %s dataset cannot be fetched "
                                 "over HTTP: %s %s (grid %s bits %s enc %s/%s"
                                 " url %r)" % (
                                     list(pos), case["kind"],
                                     type(h[1]).__name__, h[1], case["grid"],
                                     case["bits"], case["index_enc"],
                                     case["data_enc"], url))
                    if loc[0] != "ok" or loc[1] != truth[pos]:
                        ctx.fail("local accessor does not return the stored "
                                 "bytes for chunk %s (%s)" % (list(pos),
                                                              loc[0]))
                    if h[1] != truth[pos]:
                        ctx.fail("chunk %s over HTTP is %r..., stored %r..." %
                                 (list(pos), bytes(h[1][:10]),
                                  truth[pos][:10]))
                else:
                    if h[0] == "ok" and h[1]:
                        ctx.fail("chunk %s was never stored but HTTP returns "
                                 "%d bytes" % (list(pos), len(h[1])))
                    if h[0] == "error" and not is_sharded_kind(case):
                        if not isinstance(h[1], accessor.DataAccessError):
                            ctx.fail("missing chunk of a plain dataset gives "
                                     "%s instead of DataAccessError" %
                                     type(h[1]).__name__)
            if not is_sharded_kind(case):
                if acc.file_exists("info") is not True or acc.file_exists(
                        "no/such/file") is not False:
                    ctx.fail("file_exists over HTTP is wrong")
            if case["kind"] == "shard" and case["seed"] % 3 == 0:
                # the dataset behind the URL is generated again with another
                # shard layout and other contents while the first accessor is
                # still alive; an accessor opened NOW must read today's files
                import shutil
                mini, shard, pre = case["bits"]
                case2 = dict(case, bits=[(mini + 1) % 3, shard,
                                         (pre + 1) % 3],
                             seed=case["seed"] + 1)
                shutil.rmtree(d)
                d2, truth2 = build_dataset(case2, root)
                acc2 = accessor.get_accessor_for_url(url)
                for pos in sorted(truth2):
                    cc = sc.coords_of(pos, case["cs"], size)
                    h = fetch_outcome(acc2, sc.KEY, cc)
                    if h[0] != "ok" or h[1] != truth2[pos]:
                        ctx.fail("after the dataset behind the URL was "
                                 "generated again (bits %s -> %s), a newly "
                                 "opened accessor %s for chunk %s (an older "
                                 "accessor for the same URL is still alive)"
                                 % (case["bits"], case2["bits"],
                                    "fails with %s" % type(h[1]).__name__
                                    if h[0] != "ok" else "returns other "
                                    "bytes than the files hold", list(pos)))
                ctx.count("dataset_regenerated_behind_live_accessor")
                del acc
        pairs, _ = sc.routing_stats(case)
        return len(pairs)
    finally:
        ctx.rmtree(root)


def run_nofault(ctx, n):
    def check(ctx, case):
        npairs = check_case(ctx, case)
        ctx.record(case, is_sharded_kind(case) and npairs >= 2,
                   ["kind." + case["kind"], "form." + case["form"],
                    "gzip" if case["gzip"] else "nogzip"])
    ctx.run_hypothesis(dataset_cases(), check, n)


# ---------------------------------------------------------------------------
# multi-scale datasets (every scale has its own size, chunk size and sharding)
# ---------------------------------------------------------------------------
@st.composite
def multiscale_cases(draw):
    n = draw(st.integers(2, 3))
    sharded = draw(st.booleans())
    scales = []
    for i in range(n):
        cs = draw(st.sampled_from([1, 2, 3, 4]))
        chunk = [cs] * 3 if sharded else [draw(st.integers(1, 4))
                                           for _ in range(3)]
        scales.append({"size": [draw(st.integers(1, 5)) for _ in range(3)],
                       "chunk": chunk,
                       "bits": [draw(st.integers(0, 2)) for _ in range(3)],
                       "enc": [draw(st.sampled_from(["raw", "gzip"])),
                               draw(st.sampled_from(["raw", "gzip"]))]})
    if draw(st.booleans()):
        # the usual pyramid: every scale has the same sharding bit counts,
        # while the encodings of the shard contents still differ by scale
        for i, p in enumerate(scales[1:]):
            p["bits"] = list(scales[0]["bits"])
            if i % 2 == 0:
                p["enc"] = [{"raw": "gzip", "gzip": "raw"}[e]
                            for e in scales[0]["enc"]]
    return {"multiscale": True, "sharded": sharded, "scales": scales,
            "dtype": draw(st.sampled_from(["uint8", "uint16"])),
            "form": draw(st.sampled_from(URL_FORMS)),
            "seed": draw(st.integers(0, 10 ** 6))}


def check_multiscale(ctx, case):
    from neuroglancer_scripts import accessor
    root = ctx.tmpdir("httpm")
    try:
        d = os.path.join(root, "ds")
        scales = []
        for i, p in enumerate(case["scales"]):
            # scale keys as datasets have them: "20um", names with a colon
            # after a word (which looks like a URL scheme), dots, spaces,
            # a sub-directory
            style = ("s%d", "iso:%dum", "%dum", "v1.%d", "level %d",
                     "pyr/%d", "a+b:%d")[case["seed"] % 7]
            scales.append(ds.make_scale(
                style % i, p["size"], p["chunk"], "raw",
                sharding=ds.sharding_dict(p["bits"][0], p["bits"][1],
                                          p["bits"][2], p["enc"][0],
                                          p["enc"][1])
                if case["sharded"] else None))
        info = ds.make_info(case["dtype"], 1, scales)
        kind = {"type": "sharded", "strategy": "in memory"} \
            if case["sharded"] else {"type": "file", "flat": True,
                                     "gzip": False}
        pio = ds.new_dataset(info, kind, d)
        rng = np.random.default_rng(case["seed"])
        for sc_ in scales:
            X, Y, Z = sc_["size"]
            vol = rng.integers(0, 250, size=(1, Z, Y, X)).astype(
                case["dtype"])
            ds.write_scale(pio, sc_, vol)
            if case["sharded"]:
                pio.accessor.close()
        local = accessor.get_accessor_for_url(d)
        n = 0
        with httpd.StaticServer(root, rewrite=False) as srv:
            url = spell(srv.url + "ds", case["form"])
            remote = accessor.get_accessor_for_url(url)
            for sc_ in scales:
                for cc in ds.chunk_coords_list(sc_["size"],
                                               sc_["chunk_sizes"][0]):
                    want = local.fetch_chunk(sc_["key"], cc)
                    try:
                        got = remote.fetch_chunk(sc_["key"], cc)
                    except Exception as exc:
                        ctx.fail("chunk %s of scale %s (size %s chunk %s) "
                                 "cannot be fetched over HTTP: %s %s (scales "
                                 "%s)" % (cc, sc_["key"], sc_["size"],
                                          sc_["chunk_sizes"][0],
                                          type(exc).__name__, exc,
                                          case["scales"]))
                    if bytes(got) != bytes(want):
                        ctx.fail("chunk %s of scale %s over HTTP differs "
                                 "from the local bytes (scales %s)" % (
                                     cc, sc_["key"], case["scales"]))
                    n += 1
        return n
    finally:
        ctx.rmtree(root)


def run_multiscale(ctx, n):
    def check(ctx, case):
        k = check_multiscale(ctx, case)
        ctx.record(case, k >= 3 and len({tuple(p["chunk"]) for p in
                                         case["scales"]}) >= 2,
                   ["sharded" if case["sharded"] else "plain",
                    "scales%d" % len(case["scales"])])
    ctx.run_hypothesis(multiscale_cases(), check, n)


# ---------------------------------------------------------------------------
# chunks of several MiB: identical bytes, and range faults on them
# ---------------------------------------------------------------------------
def check_big_chunk(ctx, case):
    """One sharded dataset with chunks of 4..9 MiB: HTTP == local, and a
    short / over-long range reply on the data request is an error."""
    from neuroglancer_scripts import accessor
    from neuroglancer_scripts.sharded_file_accessor import ShardedFileAccessor
    root = ctx.tmpdir("httpb")
    try:
        d = os.path.join(root, "ds")
        cs = case["cs"]
        info = ds.make_info("uint32", 1, [ds.make_scale(
            "s0", [cs, cs, 2 * cs], [cs] * 3, "raw",
            sharding=ds.sharding_dict(1, 1, 0, "raw", case["data_enc"]))])
        os.makedirs(d)
        with open(os.path.join(d, "info"), "w") as f:
            json.dump(info, f)
        acc = ShardedFileAccessor(d, strategy="on disk")
        rng = np.random.default_rng(case["seed"])
        truth = {}
        for z in (0, 1):
            cc = (0, cs, 0, cs, z * cs, (z + 1) * cs)
            truth[cc] = rng.integers(0, 2 ** 32, size=cs ** 3,
                                     dtype=np.uint32).tobytes()
            acc.store_chunk(truth[cc], "s0", cc)
        acc.close()
        n = 0
        with httpd.StaticServer(root, rewrite=False) as srv:
            url = srv.url + "ds"
            for cc, want in truth.items():
                def operation():
                    return accessor.get_accessor_for_url(url).fetch_chunk(
                        "s0", cc)
                srv.reset_count()
                got = operation()
                if bytes(got) != want:
                    ctx.fail("%d MiB chunk %s over HTTP differs from the "
                             "stored bytes" % (len(want) >> 20, cc))
                log = list(srv.requests)
                for k in range(len(log)):
                    if log[k][2] is None:
                        continue
                    for kind in ("short_body", "long_200", "500_samelen"):
                        srv.reset_count()
                        srv.set_faults([httpd.Fault(k, kind)])
                        try:
                            got = operation()
                        except Exception:       # noqa
                            got = None
                        finally:
                            srv.set_faults([])
                        n += 1
                        if got is not None and bytes(got) != want:
                            ctx.fail("fault %s on request %d (%s, Range %s) "
                                     "made fetch_chunk return %d bytes that "
                                     "differ from the %d bytes stored (%d MiB "
                                     "chunk)" % (kind, k, log[k][1], log[k][2],
                                                 len(got), len(want),
                                                 len(want) >> 20))
        return n
    finally:
        ctx.rmtree(root)


def run_big_chunk(ctx, n):
    for k, (cs, enc) in enumerate([(128, "raw"), (104, "raw"),
                                   (130, "gzip")][:max(1, n)]):
        case = {"big_chunk": True, "cs": cs, "data_enc": enc,
                "seed": ctx.seed + k}
        try:
            inj = check_big_chunk(ctx, case)
        except AssertionError as exc:
            if type(exc).__name__ != "Violation":
                raise
            ctx.violations.append({"sub": "big_chunk", "case": case,
                                   "message": str(exc)})
            return
        ctx.evaluations += inj
        ctx.record(case, True, ["chunk_MiB_%d" % (4 * cs ** 3 >> 20)])


# ---------------------------------------------------------------------------
# faults
# ---------------------------------------------------------------------------
PLAIN_FAULTS = ["404", "403", "500", "503", "close_before",
                "close_after_headers"]
RANGE_FAULTS = PLAIN_FAULTS + ["short_body", "long_200", "500_samelen",
                              "404_samelen", "500_samelen"]
RANGE_ONLY = ("short_body", "long_200", "500_samelen", "404_samelen")
ALL_FAULTS = PLAIN_FAULTS + list(RANGE_ONLY)


@st.composite
def fault_cases(draw):
    c = draw(dataset_cases())
    if not c["order"]:
        c["order"] = [[0, 0, 0]]
    c["target"] = draw(st.integers(0, len(c["order"]) - 1))
    c["fault_k"] = draw(st.integers(0, 40))
    c["fault_kind"] = draw(st.sampled_from(RANGE_FAULTS))
    return c


def check_fault(ctx, case):
    from neuroglancer_scripts import accessor
    root = ctx.tmpdir("httpf")
    try:
        d, truth = build_dataset(case, root)
        size = sc.scale_info(case)["size"]
        pos = tuple(case["order"][case["target"] % len(case["order"])])
        cc = sc.coords_of(pos, case["cs"], size)
        with httpd.StaticServer(root, rewrite=(case["kind"] == "plain_deep")
                                ) as srv:
            url = spell(srv.url + urllib.parse.quote(case.get("dirname", "ds")),
                        case["form"])

            def operation():
                acc = accessor.get_accessor_for_url(url)
                return acc.fetch_chunk(sc.KEY, cc)
            good = operation()
            if good != truth[pos]:
                ctx.fail("fault-free fetch is already wrong")
            nreq = srv.count
            log = list(srv.requests)

            def inject(k, kind, then=None):
                is_range = log[k][2] is not None
                if kind in RANGE_ONLY and not is_range:
                    return None
                srv.reset_count()
                faults = [httpd.Fault(k, kind)]
                if then is not None:
                    # a second fault on the request that follows (the retry
                    # of a client that retries)
                    faults.append(httpd.Fault(k + 1, then))
                srv.set_faults(faults)
                try:
                    got = operation()
                except Exception as exc:     # noqa
                    if not is_sharded_kind(case) and not isinstance(
                            exc, accessor.DataAccessError):
                        ctx.fail("plain dataset: fault %s on request %d (%s "
                                 "%s) surfaces as %s instead of "
                                 "DataAccessError: %s" % (
                                     kind, k, log[k][0], log[k][1],
                                     type(exc).__name__, exc))
                    return "raised"
                finally:
                    srv.set_faults([])
                if case["kind"] == "stale_legacy" and "404" in (
                        kind[:3], (then or "")[:3]) and \
                        got == truth[pos][::-1] + b"outdated":
                    # "not found" for the .shard file legitimately sends the
                    # reader to the left-over legacy files of that shard
                    ctx.count("stale_legacy_after_not_found")
                    return "legacy_after_not_found"
                if got != truth[pos]:
                    ctx.fail("fault %s on request %d of %d (%s %s, Range %s) "
                             "made fetch_chunk return %d bytes that differ "
                             "from the %d bytes stored (%s dataset, bits %s)"
                             % (kind if then is None else kind + " then "
                                + then, k, nreq, log[k][0], log[k][1],
                                log[k][2], len(got), len(truth[pos]),
                                case["kind"], case["bits"]))
                return "correct"

            if case.get("all_faults"):
                # fault enumeration: every request of the operation x every
                # applicable fault kind
                stats = collections.Counter()
                for k in range(nreq):
                    for kind in ALL_FAULTS:
                        out = inject(k, kind)
                        if out is not None:
                            stats[out] += 1
                            stats["fault." + kind] += 1
                    # two faults in a row: a dropped connection, then an
                    # error reply to whatever request comes next
                    for kind in ("close_before", "close_after_headers"):
                        for then in ("404", "500", "503", "403"):
                            out = inject(k, kind, then)
                            if out is not None:
                                stats[out] += 1
                                stats["fault.%s+%s" % (kind, then)] += 1
                return nreq, stats
            k = case["fault_k"] % nreq
            kind = case["fault_kind"]
            if kind in RANGE_ONLY and log[k][2] is None:
                kind = PLAIN_FAULTS[case["fault_k"] % len(PLAIN_FAULTS)]
            return k, kind, inject(k, kind)
    finally:
        ctx.rmtree(root)


def run_fault(ctx, n):
    def check(ctx, case):
        k, kind, outcome = check_fault(ctx, case)
        ctx.record(case, k > 0, ["kind." + case["kind"], "fault." + kind,
                                 outcome])
    ctx.run_hypothesis(fault_cases(), check, n)


def run_fault_all(ctx, n):
    @st.composite
    def strat(draw):
        c = draw(fault_cases())
        c["all_faults"] = True
        return c

    def check(ctx, case):
        nreq, stats = check_fault(ctx, case)
        n_inj = stats["raised"] + stats["correct"]
        ctx.evaluations += n_inj
        for key, v in stats.items():
            ctx.count(key, v)
        for kind in ALL_FAULTS:
            if stats["fault." + kind]:
                ctx.nt.add(hash(("site", case["kind"], kind,
                                 min(nreq, 8))))
        ctx.record(case, nreq > 1, ["kind." + case["kind"],
                                    "requests%02d" % min(nreq, 12)])
    ctx.run_hypothesis(strat(), check, n)


def replay(ctx, case):
    if case.get("big_chunk"):
        return check_big_chunk(ctx, case)
    if case.get("multiscale"):
        return check_multiscale(ctx, case)
    if "fault_kind" in case:
        check_fault(ctx, case)
    else:
        check_case(ctx, case)


SUBS = [
    Sub("nofault", run_nofault, replay, quick=250, thorough=5000,
        min_per_shard=10),
    Sub("big_chunk", run_big_chunk, replay, quick=1, thorough=3, shards=1),
    Sub("multiscale", run_multiscale, replay, quick=60, thorough=2000,
        min_per_shard=8),
    Sub("faults", run_fault, replay, quick=400, thorough=10000,
        min_per_shard=10),
    Sub("faults_all", run_fault_all, replay, quick=24, thorough=500,
        min_per_shard=5),
]
