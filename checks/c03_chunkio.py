"""C03 - writing then reading a chunk returns the same array for lossless
encodings (bounded error for JPEG); off-grid positions are rejected."""
import json
import os
import shutil

import numpy as np
from hypothesis import strategies as st
from hypothesis.stateful import (RuleBasedStateMachine, initialize, invariant,
                                 rule)

from vlib import datasets as ds
from vlib.runner import Sub, logged, replay_history

PROPERTY = "C03"
JPEG_MAX, JPEG_MEAN = 24, 4.0
META = {
    "level": "exploration",
    "rule": ("Hypothesis rule-based state machine. Initialisation draws an "
             "info (1-3 scales, sizes 1..40, chunk sizes 1..16, per-scale "
             "encoding raw / compressed_segmentation / jpeg compatible with "
             "the data type) and an accessor kind (file deep/flat x gzip, "
             "sharded in-memory/on-disk with cubic chunks). Rules: write, "
             "read, reopen, close_scale (sharded), write_invalid, read_all. "
             "non-trivial = history with a write, a reopen and a read of that "
             "chunk, or a border chunk, or a rejected coordinate; distinct by "
             "the history."
             ' Also: per-scale block sizes and a second chunk size per sca'
             'le, scale keys with sub-directories / spaces / non-ASCII, ar'
             'rays handed over in six memory layouts or a narrower safely '
             'castable type, contents starting with gzip / zlib magic numb'
             'ers, a second live dataset with the same keys, stored compre'
             'ssed_segmentation files decoded from the format description.'
             " Round 12: regular label structure for compressed_segmentation chunks; a third of the datasets isotropic (cubic chunks and blocks)."
             " Round 21: chunks handed over as masked arrays (lossless encodings: the data are the chunk)."
             " Round 16/17: the array returned by the previous read_chunk is compared again after the next read."),
    "trusted_base": ["dict model", "independent on_grid predicate",
                     "JPEG tolerance max %d / mean %.1f grey levels on "
                     "smooth content (calibrated: observed max 8 / mean 1.2 "
                     "at quality >= 90)" % (JPEG_MAX, JPEG_MEAN)],
    "assumptions": ["sharded writer contract as observed in its callers: "
                    "each chunk once, close() before reading a scale, scales "
                    "written one after the other"],
}

MUTATIONS = ["shift1", "minus_chunk", "past_size", "wrong_max", "swap_minmax",
             "empty", "max_plus1", "other_scale", "neg1", "huge",
             "mix_chunk_sizes"]


def on_grid(cc, size, chunk):
    """Independent statement of 'valid chunk position'."""
    for a in range(3):
        lo, hi = cc[2 * a], cc[2 * a + 1]
        if not (isinstance(lo, int) and isinstance(hi, int)):
            return False
        if not 0 <= lo < size[a]:
            return False
        if lo % chunk[a]:
            return False
        if hi != min(lo + chunk[a], size[a]):
            return False
    return True


class ChunkIO(RuleBasedStateMachine):
    plain_invariants = ()
    LARGE = False

    def __init__(self):
        super().__init__()
        self.history = []
        self.root = None
        self.model = {}
        self.flags = set()
        self.written_since_reopen = set()
        self.reopened_keys = set()

    @initialize(
        dtype=st.sampled_from(["uint8", "uint8", "uint16", "uint32", "uint64",
                               "float32"]),
        channels=st.sampled_from([1, 1, 2, 3]),
        nscales=st.integers(1, 3),
        sizes=st.lists(st.integers(1, 40), min_size=9, max_size=9),
        chunks=st.lists(st.one_of(st.integers(1, 16),
                                  st.sampled_from([1, 2, 8, 16])),
                        min_size=9, max_size=9),
        encs=st.lists(st.integers(0, 2), min_size=3, max_size=3),
        blocks=st.lists(st.sampled_from([1, 2, 3, 8]), min_size=3,
                        max_size=3),
        kind=st.sampled_from(["deep_gz", "deep", "flat", "flat_gz",
                              "sharded_mem", "sharded_disk"]),
        bits=st.lists(st.integers(0, 3), min_size=3, max_size=3),
        shard_enc=st.sampled_from(["raw", "gzip"]),
        quality=st.integers(90, 100),
        plane=st.sampled_from(["xy", "xz"]),
        second=st.lists(st.sampled_from([0, 0, 1, 2, 3, 4, 5, 8, 16]),
                        min_size=9, max_size=9),
        keystyle=st.sampled_from(["s%d", "s%d", "%dmm", "level/%d",
                                  "scale %d", "K%d.iso", "\u00b5m-%d",
                                  "-lvl%d", "k:%d", "%d"]))
    @logged
    def setup(self, dtype, channels, nscales, sizes, chunks, encs, blocks,
              kind, bits, shard_enc, quality, plane, second=None,
              keystyle="s%d"):
        sharded = kind.startswith("sharded")
        scales = []
        if self.LARGE:
            # chunks of 33..48 voxels per axis (36 KB .. 880 KB encoded),
            # volumes up to 100 voxels per axis
            nscales = min(nscales, 2)
            # write buffers only exist in the sharded writer: half of the
            # large histories use its on-disk strategy
            if kind in ("flat", "deep"):
                kind = "sharded_disk"
                sharded = True
            sizes = [min(100, 41 + 3 * s // 2) for s in sizes]
            chunks = [32 + c for c in chunks]
            channels = 1 if channels == 2 else channels
        # a third of the datasets are isotropic (cubic chunks and cubic
        # blocks, the usual real-world configuration): border chunks then
        # have border blocks of transposed shapes
        isotropic = (sum(chunks) + sum(blocks)) % 3 == 0
        if isotropic:
            self.flags.add("isotropic_chunks_and_blocks")
        for i in range(nscales):
            size = sizes[3 * i:3 * i + 3]
            chunk = chunks[3 * i:3 * i + 3]
            if sharded or isotropic:
                chunk = [chunk[0]] * 3
            allowed = ["raw"]
            if dtype in ("uint32", "uint64"):
                allowed.append("compressed_segmentation")
            if dtype == "uint8" and channels in (1, 3):
                allowed.append("jpeg")
            enc = allowed[encs[i] % len(allowed)]
            # the block size is a per-scale field
            scales.append(ds.make_scale(
                keystyle % i, size, chunk, enc,
                block=[blocks[i % 3]] * 3 if isotropic else
                blocks[i % 3:] + blocks[:i % 3],
                sharding=ds.sharding_dict(bits[0], bits[1], bits[2],
                                          shard_enc, shard_enc)
                if sharded else None))
            # a scale may list several chunk sizes (the format allows it and
            # validate_chunk_coords accepts a position of any of the grids)
            sec = (second or [0] * 9)[3 * i:3 * i + 3]
            if not sharded and not self.LARGE and sec[0] and all(sec) and \
                    list(sec) != list(chunk):
                scales[-1]["chunk_sizes"].append(list(sec))
        self.info = ds.make_info(dtype, channels, scales)
        self.kind = kind
        self.sharded = sharded
        self.acc_kind = {
            "deep_gz": {"type": "file", "flat": False, "gzip": True,
                        "compresslevel": 1},
            "deep": {"type": "file", "flat": False, "gzip": False},
            "flat": {"type": "file", "flat": True, "gzip": False},
            "flat_gz": {"type": "file", "flat": True, "gzip": True,
                        "compresslevel": 1},
            "sharded_mem": {"type": "sharded", "strategy": "in memory"},
            "sharded_disk": {"type": "sharded", "strategy": "on disk"},
        }[kind]
        self.enc_opts = {"jpeg_quality": quality, "jpeg_plane": plane}
        self.root = self._ctx.tmpdir("cio")
        self.dir = os.path.join(self.root, "ds")
        self.pio = ds.new_dataset(self.info, self.acc_kind, self.dir,
                                  self.enc_opts)
        self.open_scale = None
        self.closed = set()

    def teardown(self):
        if self.root:
            shutil.rmtree(self.root, ignore_errors=True)

    # -- helpers ---------------------------------------------------------------
    def fail(self, msg):
        self._ctx.fail("%s [kind %s, dtype %s x%d, scales %s]" % (
            msg, self.kind, self.info["data_type"],
            self.info["num_channels"],
            [(s["size"], s["chunk_sizes"][0], s["encoding"])
             for s in self.info["scales"]]))

    def scale(self, i):
        return self.info["scales"][i % len(self.info["scales"])]

    def coords(self, sc, p):
        grids = [ds.chunk_coords_list(sc["size"], ch)
                 for ch in sc["chunk_sizes"]]
        grid = grids[p % len(grids)]
        if len(grids) > 1 and p % len(grids):
            self.flags.add("second_chunk_size")
        return grid[(p // len(grids)) % len(grid)]

    def valid_position(self, sc, cc):
        return any(on_grid(cc, sc["size"], ch) for ch in sc["chunk_sizes"])

    def content(self, sc, cc, seed):
        C = self.info["num_channels"]
        shape = (C, cc[5] - cc[4], cc[3] - cc[2], cc[1] - cc[0])
        dt = np.dtype(self.info["data_type"])
        rng = np.random.default_rng(seed)
        if sc["encoding"] == "jpeg":
            z, y, x = np.meshgrid(np.arange(shape[1]), np.arange(shape[2]),
                                  np.arange(shape[3]), indexing="ij")
            if seed % 3 == 0:
                base = np.full(shape[1:], int(rng.integers(0, 256)))
            else:
                sl = rng.permutation([1, 3, 6])
                base = sl[0] * x + sl[1] * y + sl[2] * z + int(
                    rng.integers(0, 60))
            return np.stack([np.clip(base + 64 * c, 0, 255)
                             for c in range(C)]).astype(np.uint8)
        if dt.kind == "f":
            return rng.normal(0, 1e3, size=shape).astype(dt)
        hi = int(np.iinfo(dt).max)
        if sc["encoding"] == "compressed_segmentation" and seed % 4 == 3:
            # blocks whose lookup tables differ but agree in every cheap
            # fingerprint (length, ends, byte sum, CRC-32)
            from checks import c02_cseg
            return c02_cseg.fingerprint_chunk(
                {"channels": C, "size": [shape[3], shape[2], shape[1]],
                 "block": sc["compressed_segmentation_block_size"]},
                dt.newbyteorder("<"), rng).astype(dt)
        if sc["encoding"] == "compressed_segmentation" and seed % 3 == 2:
            # regular structure: blocks (also border blocks of different
            # shapes) with byte-identical voxel sequences
            self.flags.add("regular_label_structure")
            return ds.regular_labels(
                shape, dt, rng, None,
                block=sc["compressed_segmentation_block_size"])
        if sc["encoding"] == "compressed_segmentation" and seed % 2:
            pal = rng.integers(0, hi, size=3, dtype=np.uint64, endpoint=True)
            return pal[rng.integers(0, 3, size=shape)].astype(dt)
        out = rng.integers(0, hi, size=shape, dtype=np.uint64,
                           endpoint=True).astype(dt)
        if sc["encoding"] == "raw" and seed % 5 == 2:
            # voxel values whose bytes start like a compressed container
            # (gzip / zlib magic numbers) - they are just voxel values
            magic = [b"\x1f\x8b\x08\x00", b"\x1f\x8b\x08\x08", b"x\x9c\x00\x00",
                     b"\x1f\x8b\x00\x00"][(seed // 5) % 4]
            flat = out.reshape(-1).view(np.uint8)
            flat[:min(4, flat.size)] = np.frombuffer(magic, np.uint8)[
                :min(4, flat.size)]
            self.flags.add("magic_number_voxels")
        return out

    def compare(self, sc, cc, got, want, who):
        if not isinstance(got, np.ndarray) or got.shape != want.shape:
            self.fail("%s: chunk %s of %s has shape %s, written %s" % (
                who, cc, sc["key"], getattr(got, "shape", None), want.shape))
        if got.dtype != want.dtype:
            self.fail("%s: chunk %s of %s has dtype %s, written %s" % (
                who, cc, sc["key"], got.dtype, want.dtype))
        if sc["encoding"] == "jpeg":
            d = np.abs(got.astype(int) - want.astype(int))
            if d.max() > JPEG_MAX or d.mean() > JPEG_MEAN:
                self.fail("%s: JPEG chunk %s of %s differs by max %d mean "
                          "%.2f (bounds %d / %.1f)" % (
                              who, cc, sc["key"], d.max(), d.mean(), JPEG_MAX,
                              JPEG_MEAN))
        elif got.tobytes() != want.tobytes():
            bad = np.argwhere(got != want)
            self.fail("%s: chunk %s of %s differs from what was written "
                      "(first at (c,z,y,x)=%s)" % (
                          who, cc, sc["key"],
                          bad[0].tolist() if len(bad) else "nan pattern"))

    def readable(self, si):
        return not self.sharded or si in self.closed

    # -- rules -----------------------------------------------------------------
    @rule(s=st.integers(0, 2), p=st.integers(0, 10 ** 6),
          seed=st.integers(0, 10 ** 6))
    @logged
    def write(self, s, p, seed):
        si = s % len(self.info["scales"])
        sc = self.scale(si)
        cc = self.coords(sc, p)
        if self.sharded:
            if si in self.closed or (si, cc) in self.model or (
                    self.open_scale not in (None, si)):
                self._ctx.count("skipped_sharded_precondition")
                return
            self.open_scale = si
        arr = self.content(sc, cc, seed)
        layout = ds.LAYOUTS_IO[(seed // 7) % 9] if (seed // 7) % 9 < len(
            ds.LAYOUTS_IO) else "c"
        if layout == "masked" and sc["encoding"] == "jpeg":
            # (the lossless encoders take the data of a masked array; what a
            # lossy one should store for a masked voxel is stated nowhere)
            layout = "c"
        narrow = {"uint16": "uint8", "uint32": "uint16", "uint64": "uint32",
                  "float32": "uint16"}.get(self.info["data_type"])
        if (seed // 7) % 9 in (6, 7) and narrow and sc["encoding"] != "jpeg":
            # values held in a narrower type that converts safely to the
            # dataset's type (labels kept as uint32 in a uint64 dataset, ...)
            small = (arr.astype(np.float64) % 251).astype(narrow) \
                if arr.dtype.kind == "f" else \
                (arr % (int(np.iinfo(narrow).max) + 1)).astype(narrow)
            arr = small.astype(arr.dtype)
            given = ds.laid_out(small, layout)
            self.flags.add("narrower_input_type")
        else:
            given = ds.laid_out(arr, layout)
        if layout != "c":
            self.flags.add("layout_" + layout)
        try:
            self.pio.write_chunk(given, sc["key"], cc)
        except Exception as exc:
            self.fail("write_chunk(%s, %s) failed for a %s array: %s %s" % (
                sc["key"], cc, layout, type(exc).__name__, exc))

        if (si, cc) in self.model:
            self.flags.add("overwrite")
        self.model[(si, cc)] = arr
        self.written_since_reopen.add((si, cc))
        if all(any((cc[2 * a + 1] - cc[2 * a]) != ch[a] for a in range(3))
               for ch in sc["chunk_sizes"]):
            self.flags.add("border_chunk")

    @rule(s=st.integers(0, 2), seed=st.integers(0, 10 ** 6))
    @logged
    def fill_scale(self, s, seed):
        """Write every chunk of a scale that has not been written yet, in a
        shuffled order (and finalise the scale for sharded storage) - the way
        a conversion fills a scale."""
        si = s % len(self.info["scales"])
        sc = self.scale(si)
        if self.sharded and (si in self.closed or self.open_scale not in (
                None, si)):
            return
        grid = [cc for cc in ds.chunk_coords_list(sc["size"],
                                                  sc["chunk_sizes"][0])
                if (si, cc) not in self.model]
        if len(grid) > 64:
            grid = grid[:64]
        np.random.default_rng(seed).shuffle(grid)
        for j, cc in enumerate(grid):
            arr = self.content(sc, cc, seed + j)
            try:
                self.pio.write_chunk(arr.copy(), sc["key"], cc)
            except Exception as exc:
                self.fail("write_chunk(%s, %s) failed while filling the "
                          "scale: %s %s" % (sc["key"], cc,
                                            type(exc).__name__, exc))
            self.model[(si, cc)] = arr
            self.written_since_reopen.add((si, cc))
        if self.sharded and grid:
            self.open_scale = si
            self.pio.accessor.close()
            self.closed.add(si)
            self.open_scale = None
            self.flags.add("closed_scale")
        self.flags.add("filled_scale")

    @rule(s=st.integers(0, 2), p=st.integers(0, 10 ** 6))
    @logged
    def read(self, s, p):
        si = s % len(self.info["scales"])
        sc = self.scale(si)
        keys = sorted(k for k in self.model if k[0] == si)
        if not keys or not self.readable(si):
            return
        _, cc = keys[p % len(keys)]
        self._read(si, sc, cc, "read")

    def _read(self, si, sc, cc, who):
        try:
            got = self.pio.read_chunk(sc["key"], cc)
        except Exception as exc:
            self.fail("%s: read_chunk(%s, %s) failed: %s %s" % (
                who, sc["key"], cc, type(exc).__name__, exc))
        self.compare(sc, cc, got, self.model[(si, cc)], who)
        # the array handed out by the previous read is still in use (a caller
        # that assembles a volume from several chunks): it must not change
        kept = getattr(self, "_kept_read", None)
        if kept is not None and kept[0] is not got:
            ksc, kcc, karr, kwant = kept
            self.compare(ksc, kcc, karr, kwant,
                         who + " (array returned by the previous read_chunk, "
                         "looked at again after this one)")
            self.flags.add("earlier_read_result_rechecked")
        self._kept_read = (sc, cc, got, self.model[(si, cc)])
        if (si, cc) in self.reopened_keys:
            self.flags.add("read_after_reopen")
        want = self.model[(si, cc)]
        if sc["encoding"] == "compressed_segmentation" and want.size <= 4096:
            # the stored file itself, decoded from the format description
            # with the parameters the info announces for THIS scale
            from vlib.refs import cseg_spec
            try:
                buf = self.pio.accessor.fetch_chunk(sc["key"], cc)
                ref = cseg_spec.decode(
                    bytes(buf), want.shape,
                    sc["compressed_segmentation_block_size"], want.dtype)
            except Exception as exc:
                self.fail("%s: the stored compressed_segmentation file of "
                          "chunk %s of %s cannot be decoded with the block "
                          "size %s of its scale: %s %s" % (
                              who, cc, sc["key"],
                              sc["compressed_segmentation_block_size"],
                              type(exc).__name__, exc))
            if not np.array_equal(ref, want):
                self.fail("%s: the stored compressed_segmentation file of "
                          "chunk %s of %s decodes to other labels with the "
                          "block size %s of its scale" % (
                              who, cc, sc["key"],
                              sc["compressed_segmentation_block_size"]))
            self.flags.add("spec_decoded_file")

    @rule(seed=st.integers(0, 10 ** 6))
    @logged
    def use_another_dataset(self, seed):
        """A second dataset with the SAME scale keys but another data type,
        encoding, block and chunk size is created, written and read through
        its own handle, which stays alive: the first dataset's handle must
        not be affected (and the second one must round-trip too)."""
        rng = np.random.default_rng(seed)
        others = [d for d in ("uint8", "uint16", "uint32", "uint64",
                              "float32") if d != self.info["data_type"]]
        dt = others[int(rng.integers(len(others)))]
        C = 1 + int(rng.integers(2))
        scales = []
        for sc in self.info["scales"]:
            cs = [int(rng.integers(1, 5)) for _ in range(3)]
            size = [int(rng.integers(1, 9)) for _ in range(3)]
            enc = "compressed_segmentation" if dt in ("uint32", "uint64") \
                and rng.integers(2) else "raw"
            scales.append(ds.make_scale(sc["key"], size, cs, enc, block=[
                int(rng.integers(1, 5)) for _ in range(3)]))
        info2 = ds.make_info(dt, C, scales)
        d2 = os.path.join(self.root, "other%d" % len(getattr(self, "others",
                                                           [])))
        pio2 = ds.new_dataset(info2, {"type": "file", "flat": bool(
            rng.integers(2)), "gzip": bool(rng.integers(2))}, d2)
        self.others = getattr(self, "others", []) + [pio2]
        for sc in scales:
            cc = ds.chunk_coords_list(sc["size"], sc["chunk_sizes"][0])[-1]
            shape = (C, cc[5] - cc[4], cc[3] - cc[2], cc[1] - cc[0])
            arr = rng.integers(0, 200, size=shape).astype(dt)
            try:
                pio2.write_chunk(arr.copy(), sc["key"], cc)
                got = pio2.read_chunk(sc["key"], cc)
            except Exception as exc:
                self.fail("second dataset (same keys, %s): chunk %s of %s "
                          "cannot be written / read: %s %s" % (
                              dt, cc, sc["key"], type(exc).__name__, exc))
            if got.dtype != arr.dtype or got.shape != arr.shape or \
                    not np.array_equal(got, arr):
                self.fail("second dataset (same keys, %s): chunk %s of %s "
                          "does not round-trip" % (dt, cc, sc["key"]))
        self.flags.add("two_live_datasets")

    @rule()
    @logged
    def close_scale(self):
        if not self.sharded or self.open_scale is None:
            return
        self.pio.accessor.close()
        self.closed.add(self.open_scale)
        self.open_scale = None
        self.flags.add("closed_scale")

    @rule()
    @logged
    def reopen(self):
        if self.sharded and self.open_scale is not None:
            return
        # a fresh handle with the SAME storage configuration continues the
        # history (mixing configurations in one directory is outside C12's
        # and this property's domain); a default-configuration handle is
        # used for reading only, see read_fresh_default
        opts = {k: v for k, v in self.acc_kind.items() if k != "type"}
        self.pio = ds.open_dataset(self.dir, opts if not self.sharded else {},
                                   self.enc_opts)
        from neuroglancer_scripts.sharded_file_accessor import \
            ShardedFileAccessor
        if self.sharded != isinstance(self.pio.accessor, ShardedFileAccessor):
            self.fail("reopened dataset uses %s" % type(
                self.pio.accessor).__name__)
        self.reopened_keys |= self.written_since_reopen
        self.written_since_reopen = set()
        self.flags.add("reopen")

    @rule()
    @logged
    def read_fresh_default(self):
        """Read everything through a freshly opened handle with default
        options (as a later command or another program would)."""
        if self.sharded and self.open_scale is not None:
            return
        pio = ds.open_dataset(self.dir)
        for (si, cc) in sorted(self.model):
            if not self.readable(si):
                continue
            sc = self.scale(si)
            try:
                got = pio.read_chunk(sc["key"], cc)
            except Exception as exc:
                self.fail("fresh default handle: read_chunk(%s, %s) failed: "
                          "%s %s" % (sc["key"], cc, type(exc).__name__, exc))
            self.compare(sc, cc, got, self.model[(si, cc)],
                         "fresh default handle")
            self.flags.add("read_after_reopen")

    @rule()
    @logged
    def read_all(self):
        for (si, cc) in sorted(self.model):
            if self.readable(si):
                self._read(si, self.scale(si), cc, "read_all")
        # read everything first, compare afterwards: an array returned for one
        # chunk must not change when other chunks are read later
        got = []
        for (si, cc) in sorted(self.model):
            if self.readable(si):
                try:
                    got.append((si, cc, self.pio.read_chunk(
                        self.scale(si)["key"], cc)))
                except Exception as exc:
                    self.fail("read_all: read_chunk(%s, %s) failed: %s %s" % (
                        self.scale(si)["key"], cc, type(exc).__name__, exc))
        for si, cc, arr in got:
            self.compare(self.scale(si), cc, arr, self.model[(si, cc)],
                         "read_all (compared after reading all chunks)")

    @rule(s=st.integers(0, 2), p=st.integers(0, 10 ** 6),
          m=st.sampled_from(MUTATIONS), axis=st.integers(0, 2),
          amount=st.integers(1, 7))
    @logged
    def write_invalid(self, s, p, m, axis, amount):
        si = s % len(self.info["scales"])
        sc = self.scale(si)
        if self.sharded and (si in self.closed or self.open_scale not in (
                None, si)):
            return
        size = sc["size"]
        chunk = sc["chunk_sizes"][p % len(sc["chunk_sizes"])]
        cc = list(self.coords(sc, p))
        lo, hi = 2 * axis, 2 * axis + 1
        if m == "mix_chunk_sizes":
            if len(sc["chunk_sizes"]) < 2:
                m = "shift1"
            else:
                # one axis taken from the grid of another listed chunk size
                other = sc["chunk_sizes"][(p + 1) % len(sc["chunk_sizes"])]
                k = amount % (-(-size[axis] // other[axis]))
                cc[lo] = k * other[axis]
                cc[hi] = min(cc[lo] + other[axis], size[axis])
        if m == "shift1":
            cc[lo] += amount
            cc[hi] += amount
        elif m == "minus_chunk":
            cc[lo] -= chunk[axis] * amount
            cc[hi] -= chunk[axis] * amount
        elif m == "past_size":
            k = -(-size[axis] // chunk[axis]) + amount - 1
            cc[lo] = k * chunk[axis]
            cc[hi] = cc[lo] + chunk[axis]
        elif m == "wrong_max":
            cc[hi] = cc[hi] - amount if cc[hi] - amount > cc[lo] else \
                cc[hi] + amount
        elif m == "swap_minmax":
            cc[lo], cc[hi] = cc[hi], cc[lo]
        elif m == "empty":
            cc[hi] = cc[lo]
        elif m == "max_plus1":
            cc[hi] += 1
        elif m == "other_scale":
            other = self.scale(si + 1)
            cc = list(self.coords(other, p + amount))
        elif m == "neg1":
            cc[lo] = -1
        elif m == "huge":
            cc[lo] = 2 ** 40 * chunk[axis]
            cc[hi] = cc[lo] + chunk[axis]
        cc = tuple(cc)
        if self.valid_position(sc, cc):
            self._ctx.count("mutation_landed_on_grid")
            return
        if self.sharded and (si, cc) in self.model:
            return
        shape = [self.info["num_channels"]] + [
            max(1, min(64, abs(cc[2 * a + 1] - cc[2 * a])))
            for a in (2, 1, 0)]
        arr = np.zeros(shape, dtype=self.info["data_type"])
        before = ds.tree_snapshot(self.dir)
        try:
            self.pio.write_chunk(arr, sc["key"], cc)
        except Exception:
            after = ds.tree_snapshot(self.dir)
            if after != before:
                self.fail("rejected off-grid write %s to %s still changed "
                          "the directory tree" % (cc, sc["key"]))
            self.flags.add("rejected_coordinate")
            return
        self.fail("chunk position %s (%s) is not on the grid of scale %s "
                  "(size %s, chunk size %s) but write_chunk stored it" % (
                      cc, m, sc["key"], size, chunk))


def run(ctx, n):
    class M(ChunkIO):
        def teardown(self):
            if self.root:
                f = self.flags
                nt = ("read_after_reopen" in f or "border_chunk" in f
                      or "rejected_coordinate" in f)
                encs = sorted({s["encoding"] for s in self.info["scales"]})
                ctx.record(self.history, nt and len(self.model) > 0,
                           sorted(f) + [self.kind] + ["enc." + e
                                                      for e in encs])
            super().teardown()
    M.__name__ = "ChunkIO"
    ctx.run_machine(M, n, 25 if ctx.tier == "quick" else 50)


class ChunkIOLarge(ChunkIO):
    LARGE = True


def run_large(ctx, n):
    class M(ChunkIOLarge):
        def teardown(self):
            if self.root:
                ctx.record(self.history, len(self.model) > 0,
                           sorted(self.flags) + [self.kind, "large"])
            super().teardown()
    M.__name__ = "ChunkIOLarge"
    ctx.run_machine(M, n, 12 if ctx.tier == "quick" else 25)


def replay(ctx, history):
    large = bool(history) and history[0][0] == "setup" and ctx.sub == \
        "machine_large"
    replay_history(ChunkIOLarge if large else ChunkIO, ctx, history)


SUBS = [Sub("machine", run, replay, quick=400, thorough=30000,
            min_per_shard=10),
        Sub("machine_large", run_large, replay, quick=48, thorough=1200,
            min_per_shard=3)]
