"""C11 - data-type conversion rounds to nearest and saturates, never wraps."""
import numpy as np
from hypothesis import strategies as st

from vlib.refs import dtype_ref
from vlib.runner import Sub

PROPERTY = "C11"
META = {
    "level": "exploration",
    "rule": ("Hypothesis draws (input dtype, output type, values biased to "
             "type limits / half-integers / target bounds, array form, copy "
             "mode); non-trivial = at least one value needs rounding or "
             "clamping; distinct by the whole case."
             ' Also: big-endian inputs, 64-bit integers next to float32 ro'
             'unding midpoints beyond 2^53; slices: narrowing conversions '
             'as the slice converter applies them.'
             " Round 12: results handed out earlier are compared again after the transformer converted further arrays of the same shape."
             " Round 16: sub-check type_grid (every input type x output type x form x copy mode with the pair's boundary values)."
             " Round 17: one array object converted twice (lent with preserve_input=False, refilled, then preserve_input=True)."
             " Round 23: the floating-point neighbours of ties (k + 0.5 plus or minus one unit in the last place of the input type, or 2^-40 .. 3e-4), in the strategy and in type_grid."),
    "trusted_base": ["vlib/refs/dtype_ref.py (Fraction arithmetic)"],
    "assumptions": ["finite values only; float64 values beyond the float32 "
                    "range are not offered to a float32 target"],
}

IN_DTYPES = ["int8", "int16", "int32", "int64", "uint8", "uint16", "uint32",
             "uint64", "float32", "float64"]
OUT_TYPES = ["uint8", "uint16", "uint32", "uint64", "float32"]
FORMS = ["contig", "strided", "fortran2d", "transposed", "readonly", "moved4d",
         "readonly_strided", "bigendian", "alias_type"]
F32_MAX = float(np.finfo(np.float32).max)


def is_float(name):
    return name.startswith("float")


def f17(in_dtype, out, v):
    """Signature of listed finding F17 (pinned upstream by a strict xfail test
    and documented in the function's docstring)."""
    if out != "uint64":
        return False
    return is_float(in_dtype) and v >= 2 ** 64


def value_strategy(in_dtype, out):
    if is_float(in_dtype):
        width = 32 if in_dtype == "float32" else 64
        if out == "float32":
            lim = F32_MAX
            anchors = [0.0, 1.0, -1.0, 0.5, 1e-30, -1e-30, F32_MAX, -F32_MAX,
                       16777216.0, 16777217.0, 0.1, 1 / 3]
        else:
            lo, hi = dtype_ref.INT_RANGE[out]
            lim = None
            anchors = [0.0, 0.5, 1.5, 2.5, -0.5, -1.0, 0.4, 0.6, 1e-30,
                       hi - 1.0, hi - 0.5, float(hi), hi + 0.5, hi + 1.0,
                       hi * 2.0, -0.49999, 254.5, 255.5, 65534.5, 65535.5,
                       2.0 ** 53, 2.0 ** 53 + 2, 2.0 ** 63, 2.0 ** 64,
                       1e300, -1e300, 3e38, -3e38]
        def fit(x):
            if width == 32:
                with np.errstate(over="ignore"):
                    x = float(np.float32(x))
                if not np.isfinite(x):
                    x = F32_MAX if x > 0 else -F32_MAX
            if lim is not None:
                x = max(-lim, min(lim, x))
            return x
        near = st.builds(lambda a, d: fit(a + d), st.sampled_from(anchors),
                         st.sampled_from([0.0, 0.5, -0.5, 1.0, -1.0, 0.25]))
        return st.one_of(
            st.sampled_from(anchors).map(fit), near,
            st.floats(allow_nan=False, allow_infinity=False,
                      width=width).map(fit),
            st.integers(-1000, 70000).map(lambda k: fit(k + 0.5)),
            # the neighbours of a tie, one unit in the last place (of the
            # input type) or a little more away from it: rounding in a
            # narrower type first would move them onto the tie
            st.builds(near_tie, st.one_of(
                st.sampled_from([0, 1, 2, 127, 254, 255, 30001, 65534]),
                st.integers(-5, 70000)),
                st.sampled_from(["ulp", "ulp", 2.0 ** -40, 2.0 ** -30, 1e-9,
                                 3e-4]), st.booleans(), st.just(width)))
    lo, hi = dtype_ref.INT_RANGE[in_dtype]
    anchors = {lo, lo + 1, -1, 0, 1, hi - 1, hi, 2 ** 53 - 1, 2 ** 53,
               2 ** 53 + 1, 2 ** 24 + 1, 2 ** 63, 2 ** 63 - 1}
    if out != "float32":
        olo, ohi = dtype_ref.INT_RANGE[out]
        anchors |= {ohi - 1, ohi, ohi + 1, olo - 1, olo}
    anchors = sorted(a for a in anchors if lo <= a <= hi)
    strategies = [st.sampled_from(anchors), st.integers(lo, hi)]
    if out == "float32" and hi > 2 ** 53:
        # 64-bit integers next to the midpoint of two float32 neighbours,
        # beyond the range where float64 is exact (rounding twice goes wrong
        # exactly there)
        def near_midpoint(k, j, d, neg):
            v = 2 ** k + j * 2 ** (k - 23) + 2 ** (k - 24) + d
            v = -v if neg and lo < 0 else v
            return max(lo, min(hi, v))
        strategies.append(st.builds(
            near_midpoint, st.integers(54, 63), st.integers(0, 2 ** 23 - 1),
            st.sampled_from([-1, 0, 1, -3, 3, -(2 ** 10), 2 ** 10]),
            st.booleans()))
    return st.one_of(*strategies)


@st.composite
def cases(draw):
    in_dtype = draw(st.sampled_from(IN_DTYPES))
    out = draw(st.sampled_from(OUT_TYPES))
    vals = draw(st.lists(value_strategy(in_dtype, out), min_size=1,
                         max_size=8))
    return {"in": in_dtype, "out": out, "values": vals,
            "form": draw(st.sampled_from(FORMS)),
            "preserve": draw(st.booleans())}


def build(case):
    dt = np.dtype(case["in"])
    a = np.array(case["values"], dtype=dt)
    n = a.size
    form = case["form"]
    if form == "contig":
        return a
    if form in ("strided", "readonly_strided"):
        b = np.zeros(2 * n, dtype=dt)
        b[::2] = a
        v = b[::2]
        if form == "readonly_strided":
            b.setflags(write=False)
            v = b[::2]
        return v
    if form == "fortran2d":
        return np.asfortranarray(np.stack([a, a], axis=1))
    if form == "transposed":
        return np.stack([a, a], axis=1).T
    if form == "readonly":
        a.setflags(write=False)
        return a
    if form == "alias_type":
        # the C-type spelling of the same type ('q' = long long for int64,
        # 'Q', 'i', ...: what array.array, ctypes, Cython memoryviews and
        # some readers produce); on Linux long long and long are distinct
        # NumPy type objects of equal width
        return a.astype(np.dtype({
            "int8": "b", "uint8": "B", "int16": "h", "uint16": "H",
            "int32": "i", "uint32": "I", "int64": "q", "uint64": "Q",
            "float32": "f", "float64": "d"}[case["in"]]))
    if form == "bigendian":
        # data of a big-endian file, as the image library hands it over
        return a.astype(dt.newbyteorder(">"))
    if form == "moved4d":
        b = np.asfortranarray(a.reshape(n, 1, 1))[..., np.newaxis]
        return b
    raise ValueError(form)


def check_case(ctx, case):
    from neuroglancer_scripts.data_types import get_chunk_dtype_transformer
    in_dtype, out = case["in"], case["out"]
    values = case["values"]
    if any(f17(in_dtype, out, v) for v in values):
        if ctx.known("F17"):
            return None
    arr = build(case)
    exact = [x.item() for x in np.array(values, dtype=np.dtype(in_dtype))]
    before = arr.tobytes()
    # callers build the transformer from the dtype of the array they hold
    t = get_chunk_dtype_transformer(
        arr.dtype if case["form"] in ("bigendian", "alias_type")
        else in_dtype, out,
        warn=False)
    try:
        with np.errstate(all="ignore"):
            # one transformer converts every chunk of a volume: call it on
            # another array first (both copy modes), and build an unrelated
            # transformer in between
            warm = np.array(values[::-1] + values, dtype=np.dtype(in_dtype))
            warm = warm[np.isfinite(warm.astype(float))] if is_float(
                in_dtype) else warm
            t(warm, preserve_input=True)
            t(warm.copy(), preserve_input=False)
            get_chunk_dtype_transformer("float64", "uint8", warn=False)
            res = t(arr, preserve_input=case["preserve"])
            # several converted chunks are alive together (a caller that
            # converts a list of chunks): converting further arrays of the
            # same shape must not change a result handed out earlier
            snapshot = res.tobytes()
            other = build(dict(case, values=values[::-1]))
            t(other, preserve_input=False)
            t(build(dict(case, values=values[::-1])), preserve_input=True)
            t(build(dict(case, values=values[1:] + values[:1])),
              preserve_input=case["preserve"])
            if res.tobytes() != snapshot:
                ctx.fail("the array returned for one chunk changed when the "
                         "same transformer converted the next chunk of the "
                         "same shape (%s->%s, form=%s, preserve=%s)" % (
                             in_dtype, out, case["form"], case["preserve"]))
    except Exception as exc:
        if isinstance(exc, AssertionError):
            raise
        ctx.fail("conversion %s->%s raised %s: %s (form=%s, preserve=%s)" % (
            in_dtype, out, type(exc).__name__, exc, case["form"],
            case["preserve"]))
    if res.dtype != np.dtype(out):
        ctx.fail("result dtype %s, expected %s" % (res.dtype, out))
    if res.shape != arr.shape:
        ctx.fail("result shape %s, expected %s" % (res.shape, arr.shape))
    if case["preserve"] and arr.tobytes() != before:
        ctx.fail("input modified although preserve_input=True (%s->%s, %s)" % (
            in_dtype, out, case["form"]))
    # element-wise comparison; the 2-D forms duplicate the value vector
    n = len(values)
    form = case["form"]
    if form in ("fortran2d",):
        got = [res[:, 0].tolist(), res[:, 1].tolist()]
    elif form == "transposed":
        got = [res[0, :].tolist(), res[1, :].tolist()]
    else:
        got = [res.reshape(n).tolist()]
    nontrivial = False
    for g in got:
        for v, r in zip(exact, g):
            ok = dtype_ref.convert_value(v, out)
            if r not in ok:
                ctx.fail("%s value %r -> %s gives %r, exact reference %s "
                         "(form=%s, preserve=%s)" % (
                             in_dtype, v, out, r, sorted(ok), form,
                             case["preserve"]))
            if v not in ok:
                nontrivial = True
    # the same array object is converted twice: first lent for in-place work
    # (preserve_input=False, after which its contents are whatever the
    # transformer left there), then - as it is now - with preserve_input=True:
    # the second call must leave it alone and convert what it holds
    x = build(case)
    try:
        with np.errstate(all="ignore"):
            t(x, preserve_input=False)
            if x.flags.writeable:
                # (a reader that recycles one buffer: new values arrive in it)
                x[...] = np.asarray(build(dict(case, values=values[::-1]))
                                    ).astype(x.dtype)
            held = x.tobytes()
            now = [v.item() for v in np.asarray(x).reshape(-1)]
            r2 = t(x, preserve_input=True)
    except Exception as exc:
        ctx.fail("second conversion of one array object raised %s: %s "
                 "(%s->%s, form=%s)" % (type(exc).__name__, exc, in_dtype,
                                        out, case["form"]))
    if x.tobytes() != held:
        ctx.fail("input modified although preserve_input=True, after the "
                 "same array had been converted with preserve_input=False "
                 "(%s->%s, form=%s)" % (in_dtype, out, case["form"]))
    if not any(f17(in_dtype, out, v) for v in now) and \
            not any(isinstance(v, float) and v != v for v in now):
        for v, r in zip(now, np.asarray(r2).reshape(-1).tolist()):
            if r not in dtype_ref.convert_value(v, out):
                ctx.fail("%s value %r -> %s gives %r on the second use of "
                         "one array object (form=%s), exact reference %s" % (
                             in_dtype, v, out, r, case["form"],
                             sorted(dtype_ref.convert_value(v, out))))
    return nontrivial


def near_tie(k, d, up, width):
    """The float of the given width next to k + 0.5 (d == "ulp") or d away."""
    ft = np.float32 if width == 32 else np.float64
    t = ft(k + 0.5)
    if d == "ulp":
        return float(np.nextafter(t, ft(np.inf if up else -np.inf)))
    return float(ft(float(t) + (d if up else -d)))


def anchor_values(in_dtype, out):
    """The boundary values of the pair (type limits of both types, ties,
    2^24 / 2^53 / 2^63 neighbours), as the random strategy uses them."""
    if is_float(in_dtype):
        if out == "float32":
            vals = [0.0, 1.0, -1.0, 0.5, 1e-30, -1e-30, F32_MAX, -F32_MAX,
                    16777216.0, 16777217.0, 0.1, 1 / 3]
        else:
            lo, hi = dtype_ref.INT_RANGE[out]
            vals = [0.0, 0.5, 1.5, 2.5, -0.5, -1.0, 0.4, 0.6, 1e-30,
                    hi - 1.0, hi - 0.5, float(hi), hi + 0.5, hi + 1.0,
                    hi * 2.0, -0.49999, 254.5, 255.5, 65534.5, 65535.5,
                    2.0 ** 53, 2.0 ** 53 + 2, 2.0 ** 63, 3e38, -3e38]
            if in_dtype == "float64":
                vals += [1e300, -1e300]
            w = 32 if in_dtype == "float32" else 64
            vals += [near_tie(k, "ulp", up, w) for k in (0, 1, 2, 254, 30001)
                     for up in (False, True)]
        out_vals = []
        for x in vals:
            if in_dtype == "float32":
                with np.errstate(over="ignore"):
                    x = float(np.float32(x))
                if not np.isfinite(x):
                    x = F32_MAX if x > 0 else -F32_MAX
            if out == "float32":
                x = max(-F32_MAX, min(F32_MAX, x))
            out_vals.append(x)
        return out_vals
    lo, hi = dtype_ref.INT_RANGE[in_dtype]
    anchors = {lo, lo + 1, -1, 0, 1, hi - 1, hi, 2 ** 53 - 1, 2 ** 53,
               2 ** 53 + 1, 2 ** 24 + 1, 2 ** 63, 2 ** 63 - 1,
               2 ** 62 + 1, -(2 ** 53) - 1}
    if out != "float32":
        olo, ohi = dtype_ref.INT_RANGE[out]
        anchors |= {ohi - 1, ohi, ohi + 1, olo - 1, olo}
    return sorted(a for a in anchors if lo <= a <= hi)


def run_grid(ctx, n):
    """Every (input type, output type, array form, copy mode) with the
    boundary values of the pair: 10 x 5 x 10 x 2 combinations."""
    cases_ = []
    for in_dtype in IN_DTYPES:
        for out in OUT_TYPES:
            allv = anchor_values(in_dtype, out)
            # (values in the domain of listed finding F17 get vectors of
            # their own: a vector is excluded as a whole)
            groups = [[v for v in allv if not f17(in_dtype, out, v)],
                      [v for v in allv if f17(in_dtype, out, v)]]
            for form in FORMS:
                for preserve in (True, False):
                    for vals in groups:
                        # (the transformer sees arrays of up to 8 values)
                        for k in range(0, len(vals), 8):
                            cases_.append({
                                "in": in_dtype, "out": out,
                                "values": vals[k:k + 8], "form": form,
                                "preserve": preserve})

    def check(ctx, case):
        nt = check_case(ctx, case)
        if nt is None:
            ctx.count("excluded_F17")
            return
        ctx.record(case, nt, ["%s->%s" % (case["in"], case["out"]),
                              "form." + case["form"]])
    ctx.run_grid(cases_, check)


def run(ctx, n):
    def check(ctx, case):
        nt = check_case(ctx, case)
        if nt is None:
            ctx.count("excluded_F17")
            return
        ctx.record(case, nt, ["%s->%s" % (case["in"], case["out"]),
                              "form." + case["form"],
                              "preserve" if case["preserve"] else "inplace"])
    ctx.run_hypothesis(cases(), check, n)


def replay(ctx, case):
    check_case(ctx, case)


# ---------------------------------------------------------------------------
# large arrays (beyond any internal block / buffer size), vectorised exact
# reference: inputs are k/2 for integers k, so that rounding half-to-even and
# clamping can be computed with integer arithmetic
# ---------------------------------------------------------------------------
@st.composite
def large_cases(draw):
    in_dtype = draw(st.sampled_from(["float64", "float32", "int32", "int64",
                                     "uint16", "uint64"]))
    out = draw(st.sampled_from(OUT_TYPES))
    return {"in": in_dtype, "out": out,
            "n": draw(st.sampled_from([262144, 262145, 300000, 70 ** 3,
                                       2 ** 20 + 3])),
            "form": draw(st.sampled_from(["contig", "fortran3d", "strided",
                                          "readonly"])),
            "preserve": draw(st.booleans()),
            "seed": draw(st.integers(0, 2 ** 20))}


def check_large(ctx, case):
    from neuroglancer_scripts.data_types import get_chunk_dtype_transformer
    n, out, in_dtype = case["n"], case["out"], case["in"]
    rng = np.random.default_rng(case["seed"])
    if out == "float32":
        lim = 2 ** 20      # exactly representable halves
    else:
        lim = min(dtype_ref.INT_RANGE[out][1], 2 ** 30) + 1000
    if in_dtype.startswith("float"):
        if in_dtype == "float32":
            lim = min(lim, 2 ** 20)
        k = rng.integers(-2000, 2 * lim, size=n, dtype=np.int64)
        arr = (k / 2.0).astype(in_dtype)
    else:
        lo, hi = dtype_ref.INT_RANGE[in_dtype]
        k = 2 * rng.integers(max(lo, -2000), min(hi, lim), size=n,
                             dtype=np.int64, endpoint=True)
        arr = (k // 2).astype(in_dtype)
    q, r = np.divmod(k, 2)
    if out == "float32":
        want = (k / 2.0).astype(np.float32)
    else:
        rounded = q + (r & (q & 1))
        olo, ohi = dtype_ref.INT_RANGE[out]
        want = np.clip(rounded, olo, min(ohi, 2 ** 62)).astype(out)
    form = case["form"]
    if form == "fortran3d" and n % 64 == 0:
        arr = np.asfortranarray(arr.reshape(64, n // 64))
        want = want.reshape(64, n // 64)
    elif form == "strided":
        big = np.zeros(2 * n, dtype=arr.dtype)
        big[::2] = arr
        arr = big[::2]
    elif form == "readonly":
        arr.setflags(write=False)
    before = arr.tobytes()
    t = get_chunk_dtype_transformer(in_dtype, out, warn=False)
    try:
        with np.errstate(all="ignore"):
            res = t(arr, preserve_input=case["preserve"])
    except Exception as exc:
        ctx.fail("conversion of %d %s values to %s raised %s: %s" % (
            n, in_dtype, out, type(exc).__name__, exc))
    if res.shape != want.shape or res.dtype != want.dtype:
        ctx.fail("large array: result %s %s, expected %s %s" % (
            res.shape, res.dtype, want.shape, want.dtype))
    if not np.array_equal(res, want):
        i = int(np.argmax((res != want).reshape(-1)))
        ctx.fail("large array (%d x %s -> %s, %s): element %d is %r, exact "
                 "reference %r (input %r)" % (
                     n, in_dtype, out, form, i, res.reshape(-1)[i].item(),
                     want.reshape(-1)[i].item(), arr.reshape(-1)[i].item()))
    if case["preserve"] and arr.tobytes() != before:
        ctx.fail("large array (%d x %s -> %s, %s): input modified although "
                 "preserve_input=True" % (n, in_dtype, out, form))


def run_large(ctx, n):
    def check(ctx, case):
        check_large(ctx, case)
        ctx.record(case, True, ["%s->%s" % (case["in"], case["out"]),
                                "form." + case["form"]])
    ctx.run_hypothesis(large_cases(), check, n)


def replay_any(ctx, case):
    if "n" in case:
        check_large(ctx, case)
    else:
        check_case(ctx, case)


# ---- the conversion as the slice converter applies it -------------------------
def run_slices(ctx, n):
    """16-bit slices into a uint8 dataset (and 8/16-bit into every wider
    type): the slice converter is a caller of the conversion, its output must
    saturate as well.  Oracle and generator are those of the C15 check."""
    from checks import c15_slices

    @st.composite
    def strat(draw):
        case = draw(c15_slices.cases(draw(st.sampled_from(
            ["RAS", "LPI", "ASR", "IRP", "SPL"]))))
        case["pix"] = "uint16" if case["layout"] != "rgb" else "uint8"
        if case["pix"] == "uint16":
            case["out"] = draw(st.sampled_from(["uint8", "uint8", "uint16"]))
        case["block"] = None
        return case

    def check(ctx, case):
        c15_slices.check_case(ctx, case)
        ctx.record(case, case["pix"] == "uint16" and case["out"] == "uint8",
                   ["slices", "%s->%s" % (case["pix"], case["out"])])
    ctx.run_hypothesis(strat(), check, n)


def replay_slices(ctx, case):
    from checks import c15_slices
    c15_slices.check_case(ctx, case)


SUBS = [Sub("convert", run, replay_any, quick=12000, thorough=1250000),
        Sub("type_grid", run_grid, replay_any, quick=1, thorough=1, shards=14,
            sweep=True),
        Sub("slices", run_slices, replay_slices, quick=60, thorough=3750,
            shards=4),
        Sub("large", run_large, replay_any, quick=120, thorough=7500,
            min_per_shard=8)]
