"""C09 - chunk identifiers and shard routing follow the specification."""
import itertools
import json

import numpy as np
from hypothesis import strategies as st

from vlib.refs import morton
from vlib.runner import Sub

PROPERTY = "C09"
META = {
    "level": "exploration",
    "rule": ("identifiers: every grid shape up to G^3 (G=10 quick, 16 "
             "thorough) x every position is enumerated; sampled grids up to "
             "2^21 per axis; non-trivial = grid is not a cube of a power of "
             "two. routing: all bit triples in {0..8}^3 x boundary ids, "
             "Hypothesis triples up to 70 bits; non-trivial = shard and "
             "minishard bits both > 0 or total > 64."
             ' Also: coordinates as NumPy scalars of every width, one coor'
             'dinate list advanced in place, routing_on_disk: the shard fi'
             'le a chunk stored through ShardedFileAccessor lands in.'
             " Round 12: positions off the lattice on several axes at once (all offset triples for chunk sizes <= 4)."),
    "exhaustive_parts": ["cmc_exhaustive: all grids up to 10^3 (quick) / "
                         "16^3 (thorough), all positions",
                         "routing_exhaustive: all (preshift, minishard, "
                         "shard) in {0..8}^3"],
    "trusted_base": ["vlib/refs/morton.py (Python ints, from the spec)"],
}


def spec_for(grid, cs, rem):
    from neuroglancer_scripts.sharded_base import ShardVolumeSpec
    sizes = [g * cs - r for g, r in zip(grid, rem)]
    return ShardVolumeSpec([cs, cs, cs], sizes), sizes


def coords(pos, cs, sizes):
    c = []
    for p, s in zip(pos, sizes):
        c += [p * cs, min((p + 1) * cs, s)]
    return tuple(c)


def check_grid(ctx, case):
    """All positions of one grid: equality with the reference, injectivity,
    bound; positions just outside are rejected."""
    grid, cs, rem = case["grid"], case["cs"], case["rem"]
    svs, sizes = spec_for(grid, cs, rem)
    tb = morton.total_bits(grid)
    check_shared_list(ctx, svs, grid)
    seen = {}
    for pos in itertools.product(*[range(g) for g in grid]):
        try:
            got = int(svs.get_cmc(coords(pos, cs, sizes)))
        except Exception as exc:
            ctx.fail("grid %s position %s rejected: %s %s" % (
                grid, pos, type(exc).__name__, exc))
        exp = morton.compressed_morton_code(pos, grid)
        if got != exp:
            ctx.fail("grid %s position %s: id %d, specification gives %d" % (
                grid, pos, got, exp))
        if got >= 2 ** tb:
            ctx.fail("grid %s position %s: id %d >= 2^%d" % (grid, pos, got,
                                                            tb))
        if got in seen:
            ctx.fail("grid %s: positions %s and %s share id %d" % (
                grid, seen[got], pos, got))
        seen[got] = pos
    # rejections
    for d in range(3):
        for bad in (grid[d], grid[d] + 1, -1):
            pos = [0, 0, 0]
            pos[d] = bad
            cc = list(coords([0, 0, 0], cs, sizes))
            cc[2 * d] = bad * cs
            cc[2 * d + 1] = bad * cs + cs
            check_rejected(ctx, svs, tuple(cc), "grid %s position %s "
                           "(outside the grid)" % (grid, pos))
        if cs > 1:
            cc = list(coords([0, 0, 0], cs, sizes))
            cc[2 * d] = 1
            check_rejected(ctx, svs, tuple(cc), "grid %s min %d off the "
                           "chunk lattice (chunk size %d)" % (grid, 1, cs))
    if cs > 1:
        # off the lattice on one, two or three axes at once - every offset
        # triple for small chunks, a spread of them (offsets that add up to
        # the chunk size, to a multiple of it, equal offsets, cs/2, cs-1)
        # otherwise - at the origin and at the last chunk
        if cs <= 4:
            offs = [o for o in itertools.product(range(cs), repeat=3)
                    if any(o)]
        else:
            h, q = cs // 2, cs // 4
            offs = [(h, h, 0), (0, h, h), (h, 0, h), (1, cs - 1, 0),
                    (1, 2, cs - 3), (q, q, h), (cs - 1, cs - 1, 2),
                    (1, 1, 1), (h, h, h), (cs - 1, cs - 1, cs - 1),
                    (q, 3 * q, 0), (1, 0, cs - 1), (3, 5, cs - 8)]
        for base in ([0, 0, 0], [g - 1 for g in grid]):
            for o in offs:
                cc = list(coords(base, cs, sizes))
                for d in range(3):
                    cc[2 * d] += o[d]
                    cc[2 * d + 1] += o[d]
                check_rejected(ctx, svs, tuple(cc), "grid %s chunk %s moved "
                               "off the chunk lattice by %s (chunk size %d)"
                               % (grid, base, list(o), cs))
    # direct grid-coordinate entry point: non-integers and out-of-grid
    for bad in ([0.5, 0, 0], [0, 1.0, 0], [0, 0, grid[2]], [grid[0], 0, 0],
                [0, -1, 0], [None, 0, 0]):
        try:
            got = svs.compressed_morton_code(bad)
        except Exception:
            continue
        ctx.fail("grid %s: grid coordinates %s accepted -> id %d" % (
            grid, bad, int(got)))
    return len(seen)


def check_shared_list(ctx, svs, grid):
    """compressed_morton_code called with ONE list object that the caller
    advances in place from position to position (a loop variable)."""
    pos = [0, 0, 0]
    last = [min(g - 1, 3) for g in grid]
    for x in range(last[0] + 1):
        for y in range(last[1] + 1):
            for z in range(last[2] + 1):
                pos[0], pos[1], pos[2] = x, y, z
                got = int(svs.compressed_morton_code(pos))
                exp = morton.compressed_morton_code((x, y, z), grid)
                if got != exp:
                    ctx.fail("grid %s position %s passed as a list that is "
                             "updated in place: id %d, specification gives %d"
                             % (grid, [x, y, z], got, exp))
                if pos != [x, y, z]:
                    ctx.fail("compressed_morton_code modified its argument")


def check_rejected(ctx, svs, cc, what):
    # asked twice (a caller that retries): rejected both times
    for attempt in ("", " (second request in a row)"):
        try:
            got = svs.get_cmc(cc)
        except Exception:
            continue
        ctx.fail("%s accepted%s: coords %s -> id %d" % (what, attempt,
                                                        list(cc), int(got)))


def nontrivial_grid(grid):
    return not (grid[0] == grid[1] == grid[2]
                and grid[0] & (grid[0] - 1) == 0)


def run_exhaustive(ctx, n):
    G = 10 if ctx.tier == "quick" else 16
    grids = list(itertools.product(range(1, G + 1), repeat=3))
    mine = grids[ctx.shard::ctx.nshards]
    evals = nt = 0
    for i, grid in enumerate(mine):
        cs = (1, 2, 64, 3)[i % 4]
        rem = [0, 0, 0] if cs == 1 else [(i >> k) % cs for k in range(3)]
        case = {"grid": list(grid), "cs": cs, "rem": rem}
        try:
            k = check_grid(ctx, case)
        except AssertionError as exc:
            ctx.violations.append({"sub": "cmc_exhaustive", "case": case,
                                   "message": str(exc)})
            break
        evals += k
        if nontrivial_grid(grid):
            nt += k
    ctx.bulk(evals, nt)
    ctx.sample({"grid": list(mine[-1]), "positions": "all"})


# ---- sampled large grids ---------------------------------------------------
@st.composite
def big_cases(draw):
    bits = draw(st.lists(st.integers(0, 21), min_size=3, max_size=3))
    grid = []
    for b in bits:
        if b == 0:
            grid.append(1)
        else:
            grid.append(draw(st.one_of(
                st.sampled_from([2 ** b, 2 ** (b - 1) + 1]),
                st.integers(2 ** (b - 1) + 1, 2 ** b))))
    cs = draw(st.sampled_from([1, 2, 64]))
    pos = [draw(st.one_of(st.sampled_from([0, g - 1, g // 2]),
                          st.integers(0, g - 1))) for g in grid]
    return {"grid": grid, "cs": cs, "pos": pos}


def check_big(ctx, case):
    grid, cs, pos = case["grid"], case["cs"], case["pos"]
    svs, sizes = spec_for(grid, cs, [0, 0, 0])
    got = int(svs.get_cmc(coords(pos, cs, sizes)))
    exp = morton.compressed_morton_code(pos, grid)
    if got != exp:
        ctx.fail("grid %s position %s: id %d, specification gives %d" % (
            grid, pos, got, exp))
    # the same coordinates as NumPy scalars of the narrowest type that holds
    # them (rows of a coordinate table) and as 64-bit NumPy scalars
    cc = coords(pos, cs, sizes)
    for name in ("int16", "uint16", "int32", "uint32", "int64", "uint64"):
        if max(cc) > np.iinfo(name).max:
            continue
        alt = int(svs.get_cmc(tuple(np.dtype(name).type(v) for v in cc)))
        if alt != exp:
            ctx.fail("grid %s position %s given as %s scalars: id %d, "
                     "specification gives %d" % (grid, pos, name, alt, exp))
    for d in range(3):
        cc = list(coords(pos, cs, sizes))
        cc[2 * d] = grid[d] * cs
        cc[2 * d + 1] = grid[d] * cs + cs
        check_rejected(ctx, svs, tuple(cc), "grid %s coordinate %d on axis %d"
                       " (== grid size)" % (grid, grid[d], d))


def run_big(ctx, n):
    def check(ctx, case):
        ctx.record(case, nontrivial_grid(case["grid"]),
                   ["bits%02d" % (morton.total_bits(case["grid"]) // 8 * 8)])
        check_big(ctx, case)
    ctx.run_hypothesis(big_cases(), check, n)


# ---- routing ---------------------------------------------------------------
class _RW:
    pass


def routing_objects(pre, mini, shard, tmp):
    from neuroglancer_scripts.sharded_base import CMCReadWrite, ShardSpec
    from neuroglancer_scripts.sharded_file_accessor import Shard
    spec = ShardSpec(minishard_bits=mini, shard_bits=shard,
                     preshift_bits=pre)

    class RW(CMCReadWrite):
        pass
    return spec, RW(spec), Shard, tmp


def check_route(ctx, case):
    from neuroglancer_scripts.sharded_base import CMCReadWrite, ShardSpec
    from neuroglancer_scripts.sharded_file_accessor import Shard
    pre, mini, sh = case["pre"], case["mini"], case["shard"]
    spec = ShardSpec(minishard_bits=mini, shard_bits=sh, preshift_bits=pre)

    class RW(CMCReadWrite):
        pass
    rw = RW(spec)
    for cid in case["ids"]:
        with np.errstate(all="ignore"):
            gs = int(rw.get_shard_key(np.uint64(cid)))
            gm = int(rw.get_minishard_key(np.uint64(cid)))
        es, em = morton.route(cid, pre, mini, sh)
        if (gs, gm) != (es, em):
            ctx.fail("id %d with (preshift,minishard,shard)=(%d,%d,%d): "
                     "routed to shard %d minishard %d, specification gives "
                     "shard %d minishard %d" % (cid, pre, mini, sh, gs, gm,
                                                es, em))
        name = Shard(case.get("dir", "/nonexistent-verif"), np.uint64(gs),
                     spec).file_path.name
        exp = morton.shard_file_stem(es, sh) + ".shard"
        if name != exp:
            ctx.fail("shard %d with shard_bits=%d: file name %r, "
                     "specification gives %r" % (es, sh, name, exp))


# ---- routing as the accessor applies it (info -> shard file on disk) ----------
@st.composite
def disk_cases(draw):
    grid = [draw(st.integers(1, 4)) for _ in range(3)]
    return {"grid": grid, "cs": draw(st.sampled_from([1, 2, 3, 8])),
            "bits": [draw(st.integers(0, 3)), draw(st.integers(0, 4)),
                     draw(st.integers(0, 4))],
            "pos": [draw(st.integers(0, g - 1)) for g in grid]}


def check_disk(ctx, case):
    """One chunk stored through ShardedFileAccessor with the sharding
    parameters of the info lands in the shard file the specification names
    (identifier -> preshift -> minishard / shard bits -> hexadecimal name)."""
    import os

    from neuroglancer_scripts.sharded_file_accessor import ShardedFileAccessor
    from vlib import datasets as ds
    mini, sh, pre = case["bits"]
    grid, cs = case["grid"], case["cs"]
    size = [g * cs for g in grid]
    d = ctx.tmpdir("route")
    try:
        info = ds.make_info("uint8", 1, [ds.make_scale(
            "s0", size, [cs] * 3, "raw",
            sharding=ds.sharding_dict(mini, sh, pre))])
        with open(os.path.join(d, "info"), "w") as f:
            json.dump(info, f)
        acc = ShardedFileAccessor(d)
        pos = case["pos"]
        cc = []
        for p_ in pos:
            cc += [p_ * cs, (p_ + 1) * cs]
        acc.store_chunk(b"x" * cs ** 3, "s0", tuple(cc))
        acc.close()
        cid = morton.compressed_morton_code(pos, grid)
        es, em = morton.route(cid, pre, mini, sh)
        exp = morton.shard_file_stem(es, sh) + ".shard"
        got = sorted(os.listdir(os.path.join(d, "s0")))
        if got != [exp]:
            ctx.fail("chunk %s of grid %s (id %d) with (minishard, shard, "
                     "preshift) bits %s is stored in %s, the specification "
                     "names %s" % (pos, grid, cid, case["bits"], got, exp))
        return pre > 0 and sh > 0
    finally:
        ctx.rmtree(d)


def run_disk(ctx, n):
    def check(ctx, case):
        nt = check_disk(ctx, case)
        ctx.record(case, nt, ["preshift%d" % case["bits"][2]])
    ctx.run_hypothesis(disk_cases(), check, n)


BOUNDARY_IDS = sorted({0, 1, 2, 3, 5, 255, 256, 0xABCDEF, 2 ** 24 - 1, 2 ** 31,
                       2 ** 32 + 7, 0x0123456789ABCDEF, 2 ** 53 + 1,
                       2 ** 63, 2 ** 63 + 12345, 2 ** 64 - 1, 2 ** 64 - 2})


def run_route_exhaustive(ctx, n):
    triples = list(itertools.product(range(9), repeat=3))
    mine = triples[ctx.shard::ctx.nshards]
    evals = nt = 0
    for pre, mini, sh in mine:
        case = {"pre": pre, "mini": mini, "shard": sh, "ids": BOUNDARY_IDS}
        try:
            check_route(ctx, case)
        except AssertionError as exc:
            ctx.violations.append({"sub": "routing_exhaustive", "case": case,
                                   "message": str(exc)})
            break
        evals += len(BOUNDARY_IDS)
        if mini > 0 and sh > 0:
            nt += len(BOUNDARY_IDS)
    ctx.bulk(evals, nt)
    ctx.sample({"triple": list(mine[-1]), "ids": BOUNDARY_IDS[:6]})


@st.composite
def route_cases(draw):
    b = st.one_of(st.integers(0, 12), st.integers(0, 70))
    ids = draw(st.lists(st.one_of(st.sampled_from(BOUNDARY_IDS),
                                  st.integers(0, 2 ** 64 - 1)),
                        min_size=1, max_size=4))
    return {"pre": draw(b), "mini": draw(b), "shard": draw(b), "ids": ids}


def run_route(ctx, n):
    def check(ctx, case):
        tot = case["pre"] + case["mini"] + case["shard"]
        ctx.record(case, (case["mini"] > 0 and case["shard"] > 0) or tot > 64,
                   ["total>64" if tot > 64 else "total<=64"])
        check_route(ctx, case)
    ctx.run_hypothesis(route_cases(), check, n)


def replay(ctx, case):
    if "bits" in case:
        return check_disk(ctx, case)
    if "ids" in case:
        check_route(ctx, case)
    elif "pos" in case:
        check_big(ctx, case)
    else:
        check_grid(ctx, case)


SUBS = [
    Sub("cmc_exhaustive", run_exhaustive, replay, quick=1, thorough=1,
        shards=14, sweep=True),
    Sub("cmc_sampled", run_big, replay, quick=3000, thorough=500000),
    Sub("routing_exhaustive", run_route_exhaustive, replay, quick=1,
        thorough=1, shards=9, sweep=True),
    Sub("routing_on_disk", run_disk, replay, quick=400, thorough=20000),
    Sub("routing_sampled", run_route, replay, quick=3000, thorough=500000),
]
