"""C19 - all-in-one conversion equals the step-by-step pipeline and steps are
repeatable; a successful command has written everything it was asked for."""
import importlib
import json
import os
import urllib.parse
import subprocess
import sys

import numpy as np
from hypothesis import strategies as st

from vlib import datasets as ds
from vlib import nifti
from vlib.runner import Sub, repo_src

PROPERTY = "C19"
META = {
    "level": "exploration",
    "rule": ("Hypothesis draws a small synthetic NIfTI volume (one axis of "
             "129..150 voxels so that the default target chunk size yields "
             ">= 2 scales, the others 1..6; isotropic or anisotropic voxel "
             "sizes), an option set (type, encoding, downscaling method, "
             "outside value, gzip/flat, input-min/max, ignore-scaling, mmap, "
             "sharding for the step-by-step program) and a program from the "
             "grammar of documented workflows with optional repeated data-"
             "writing steps, convert-chunks and scale-stats. non-trivial = "
             ">= 2 scales and a repeated step; distinct by the whole case. "
             "Most cases run in-process through main(argv) with atexit "
             "handlers captured per command; a sample runs as real "
             "subprocesses."
             ' Also: dataset locations spelled as plain paths / trailing s'
             'lash / file:// / percent-encoded URLs, magic-number voxels a'
             't a chunk origin, half of the subprocess cases with PYTHONOP'
             'TIMIZE=1.'
             " Round 12: header slope 1 with an intercept."
             " Round 13: the jpeg encoding (8-bit, 1 or 3 channels)."
             " Round 14: NaN voxels in a third of the float volumes."
             " Round 16: sub-check unsupported_volume (1-, 2-, 5-, 6-D files)."
             " Round 17: volume-to-precomputed re-run on the existing dataset with an updated volume, compared with a fresh conversion."
             " Round 18: options written into the description file instead of flags."
             " Round 19: re-encoding into a pyramid with fewer scales."),
    "trusted_base": ["nibabel (input files)", "vlib/datasets.read_scale"],
    "assumptions": ["RGB inputs and --sharding are outside the all-in-one "
                    "command's options: sharded programs only take part in "
                    "the repetition and completeness clauses"],
}

MODULES = {
    "pyramid": "volume_to_precomputed_pyramid",
    "v2p": "volume_to_precomputed",
    "gsi": "generate_scales_info",
    "compute": "compute_scales",
    "convert": "convert_chunks",
    "stats": "scale_stats",
}


def run_cmd(name, args, mode="inproc"):
    """Returns the exit status (int) of one command, run like a process.
    mode "subprocess-O" runs the interpreter with assertions stripped
    (PYTHONOPTIMIZE=1), as deployments sometimes do."""
    modname = "neuroglancer_scripts.scripts." + MODULES[name]
    if mode.startswith("subprocess"):
        env = dict(os.environ, PYTHONPATH=repo_src(), TQDM_DISABLE="1")
        env.pop("PYTHONOPTIMIZE", None)
        if mode == "subprocess-O":
            env["PYTHONOPTIMIZE"] = "1"
        r = subprocess.run([sys.executable, "-m", modname] + args, env=env,
                           capture_output=True, text=True)
        return r.returncode, (r.stderr or "")[-300:]
    mod = importlib.import_module(modname)
    try:
        with ds.captured_atexit(), np.errstate(all="ignore"):
            rc = mod.main([name] + args)
        return int(rc or 0), ""
    except SystemExit as exc:
        code = exc.code if isinstance(exc.code, int) else 1
        return code, "SystemExit(%r)" % (exc.code,)
    except Exception as exc:      # an uncaught exception = non-zero status
        from vlib.runner import _from_repo
        if not _from_repo(exc):
            raise
        return 1, "%s: %s" % (type(exc).__name__, exc)


@st.composite
def cases(draw):
    long_axis = draw(st.integers(0, 2))
    shape = [draw(st.integers(1, 6)) for _ in range(3)]
    shape[long_axis] = draw(st.integers(129, 150))
    nch = draw(st.sampled_from([1, 1, 2]))
    vs = list(draw(st.sampled_from([(1, 1, 1), (1, 1, 1), (1, 1, 2),
                                    (0.5, 1, 1), (1, 2, 4), (2, 2, 1),
                                    (0.8, 0.8, 1.2)])))
    enc = draw(st.sampled_from([None, None, "raw",
                                "compressed_segmentation", "jpeg"]))
    if enc == "jpeg":
        # (8-bit data with 1 or 3 channels: what the lossy encoding holds;
        # both pipelines must still agree exactly, decoding is deterministic)
        stored = "uint8"
        nch = draw(st.sampled_from([1, 3]))
    elif enc == "compressed_segmentation":
        stored = draw(st.sampled_from(["uint8", "uint16", "uint32",
                                       "uint64"]))
    else:
        stored = draw(st.sampled_from(["uint8", "int16", "uint16", "float32",
                                       "uint32"]))
    sharded = draw(st.integers(0, 4)) == 0
    if sharded:
        vs = [1, 1, 1]
    scaling = None
    if draw(st.integers(0, 3)) == 0:
        # (slope 1 with an intercept: CT-like files; intercept alone 0)
        scaling = [draw(st.sampled_from([0.5, 2.0, 1.0, 1.0])),
                   draw(st.sampled_from([0.0, 1.0, -16.0, 100.0]))]
    mm = draw(st.sampled_from([None, None, None, [0.0, 100.0],
                               [None, 50.0]]))
    if enc in ("compressed_segmentation", "jpeg"):
        # rescaled / scaled values are floating point, which the
        # compressed_segmentation encoding (documented: uint32/uint64 labels)
        # cannot hold: not a valid option set
        mm = None
        scaling = None
    return {
        "shape": shape, "channels": nch, "voxel_sizes": vs, "stored": stored,
        "scaling": scaling, "type": draw(st.sampled_from(
            [None, None, "image", "segmentation"])),
        "encoding": enc,
        "method": draw(st.sampled_from([None, None, "average", "majority",
                                        "stride"])),
        "outside": draw(st.sampled_from([None, None, 0, 100])),
        "gzip": draw(st.booleans()), "flat": draw(st.booleans()),
        "minmax": mm, "ignore_scaling": draw(st.booleans()),
        "mmap": draw(st.booleans()),
        "sharding": "%d,%d,%d" % (draw(st.integers(0, 2)),
                                  draw(st.integers(0, 2)),
                                  draw(st.integers(0, 2)))
        if sharded else None,
        "repeat": draw(st.sampled_from([None, "v2p", "compute", "both"])),
        "spelling": draw(st.sampled_from(["plain", "plain", "trailing_slash",
                                          "file_url", "file_url_escaped"])),
        "convert": draw(st.sampled_from([None, None, "raw",
                                         "compressed_segmentation"])),
        "stats": draw(st.booleans()),
        "seed": draw(st.integers(0, 2 ** 31)),
    }


def make_volume(case):
    rng = np.random.default_rng(case["seed"])
    X, Y, Z = case["shape"]
    C = case["channels"]
    dt = np.dtype(case["stored"])
    shape = (X, Y, Z) if C == 1 else (X, Y, Z, C)
    if dt.kind == "f":
        a = rng.normal(50, 30, size=shape).astype(dt)
        if case["seed"] % 3 == 0:
            # missing-data voxels, as masked / registered images have them
            a.reshape(-1)[::7] = np.nan
    else:
        hi = min(int(np.iinfo(dt).max), 250)
        lo = max(int(np.iinfo(dt).min), -20)
        if case["type"] == "segmentation" or case["encoding"] == \
                "compressed_segmentation":
            a = rng.integers(max(lo, 0), 5, size=shape).astype(dt)
        else:
            a = rng.integers(lo, hi, size=shape, endpoint=True).astype(dt)
            if dt == np.uint8 and C == 1 and case["seed"] % 2 == 1 and X >= 3:
                # voxel values that spell a gzip / zlib magic number at the
                # origin of the first chunk (they are ordinary grey values)
                a[:3, 0, 0] = [[31, 139, 8], [120, 156, 0]][
                    (case["seed"] // 2) % 2]
    return np.asfortranarray(a)


def common_opts(case, writing=True):
    o = []
    if not case["gzip"]:
        o.append("--no-gzip")
    if case["flat"] and writing:
        o.append("--flat")
    return o


def read_opts(case):
    o = []
    if case["ignore_scaling"]:
        o.append("--ignore-scaling")
    if case["mmap"]:
        o.append("--mmap")
    if case["minmax"]:
        if case["minmax"][0] is not None:
            o += ["--input-min", repr(case["minmax"][0])]
        o += ["--input-max", repr(case["minmax"][1])]
    return o


def ds_opts(case):
    o = []
    if case["method"]:
        o += ["--downscaling-method", case["method"]]
    if case["outside"] is not None:
        o += ["--outside-value", repr(float(case["outside"]))]
    return o


def info_opts(case):
    o = []
    if case["type"]:
        o += ["--type", case["type"]]
    if case["encoding"]:
        o += ["--encoding", case["encoding"]]
    return o


def read_dataset(ctx, path, what):
    try:
        pio = ds.open_dataset(path)
        info = pio.info
        levels = [ds.read_scale(pio, s, info["data_type"],
                                info["num_channels"])
                  for s in info["scales"]]
    except Exception as exc:
        ctx.fail("%s: the dataset is not complete/readable although every "
                 "command exited with status 0: %s %s" % (
                     what, type(exc).__name__, exc))
    return info, levels


def same_array(x, y):
    """Equal shape, type and voxels (a NaN equals a NaN)."""
    if x.shape != y.shape or x.dtype != y.dtype:
        return False
    if x.dtype.kind == "f":
        return bool(np.array_equal(x, y, equal_nan=True))
    return x.tobytes() == y.tobytes()


def same_levels(a, b):
    return len(a) == len(b) and all(same_array(x, y) for x, y in zip(a, b))


def check_case(ctx, case, mode="inproc"):
    root = ctx.tmpdir("pipe")
    try:
        vol = make_volume(case)
        path = os.path.join(root, "vol.nii")
        vs = case["voxel_sizes"]
        slope, inter = case["scaling"] or (None, None)
        nifti.write_nifti(path, vol, np.diag(list(vs) + [1.0]), slope, inter)
        _, ok = nifti.load_checked(path, vol, slope, inter)
        if not ok:
            return None

        def must(name, args, what):
            rc, err = run_cmd(name, args, mode)
            if rc != 0:
                ctx.fail("%s: `%s %s` exited with status %d (%s); options %s"
                         % (what, MODULES[name], " ".join(args[-6:]), rc, err,
                            describe(case)))

        # how dataset locations are spelled on the command lines (the reads
        # of the oracle always use the real directory)
        spelling = case.get("spelling", "plain")
        base = root
        if spelling == "file_url_escaped":
            base = os.path.join(root, "my data")
            os.makedirs(base)

        def sp(d):
            if spelling == "trailing_slash":
                return d + "/"
            if spelling == "file_url":
                return "file://" + d
            if spelling == "file_url_escaped":
                return "file://" + urllib.parse.quote(d)
            return d
        # ---- P2: the documented sequence of separate commands --------------
        p2 = os.path.join(base, "p2")
        gen = ["--generate-info"] + read_opts(case)
        if case["sharding"]:
            gen += ["--sharding", case["sharding"]]
        rc, err = run_cmd("v2p", [path, sp(p2)] + gen + common_opts(case),
                          mode)
        if rc not in (0, 4):
            ctx.fail("generate-info exited with status %d (%s)" % (rc, err))
        gsi_opts = info_opts(case)
        if case["seed"] % 3 == 1 and gsi_opts:
            # the documented alternative to the flags: the description file
            # is edited by hand (dataset type at the top level, encoding in
            # its scale) and generate-scales-info inherits both
            fr = os.path.join(p2, "info_fullres.json")
            with open(fr) as f:
                desc = json.load(f)
            if case["type"]:
                desc["type"] = case["type"]
            if case["encoding"]:
                desc["scales"][0]["encoding"] = case["encoding"]
            with open(fr, "w") as f:
                json.dump(desc, f)
            gsi_opts = []
            ctx.count("options_given_in_the_description_file")
        must("gsi", [os.path.join(p2, "info_fullres.json"), sp(p2)]
             + gsi_opts, "step-by-step")
        v2p_args = [path, sp(p2)] + read_opts(case) + common_opts(case)
        must("v2p", v2p_args, "step-by-step")
        if case["repeat"] in ("v2p", "both"):
            info_a, lv_a = read_dataset_scale0(ctx, p2)
            must("v2p", v2p_args, "repeated volume-to-precomputed")
            info_b, lv_b = read_dataset_scale0(ctx, p2)
            if not same_levels(lv_a, lv_b):
                ctx.fail("running volume-to-precomputed a second time "
                         "changed the decoded full-resolution scale (%s)"
                         % describe(case))
            # the step is run again with ANOTHER volume of the same geometry
            # (an updated image): the dataset must then hold the new voxels,
            # exactly as a fresh conversion of that volume does
            volb = np.asfortranarray(vol[::-1, ::-1])
            if volb.tobytes() != vol.tobytes():
                pathb = os.path.join(root, "volb.nii")
                nifti.write_nifti(pathb, volb, np.diag(list(vs) + [1.0]),
                                  slope, inter)
                p2c = os.path.join(base, "p2c")
                rc, err = run_cmd("v2p", [pathb, sp(p2c)] + gen
                                  + common_opts(case), mode)
                if rc not in (0, 4):
                    ctx.fail("generate-info exited with status %d (%s)" % (
                        rc, err))
                must("gsi", [os.path.join(p2c, "info_fullres.json"), sp(p2c)]
                     + info_opts(case), "fresh conversion of the updated "
                     "volume")
                must("v2p", [pathb, sp(p2c)] + read_opts(case)
                     + common_opts(case), "fresh conversion of the updated "
                     "volume")
                must("v2p", [pathb, sp(p2)] + read_opts(case)
                     + common_opts(case), "conversion of an updated volume "
                     "into the existing dataset")
                _, lv_new = read_dataset_scale0(ctx, p2)
                _, lv_ref = read_dataset_scale0(ctx, p2c)
                if not same_levels(lv_new, lv_ref):
                    ctx.fail("volume-to-precomputed run on an existing "
                             "dataset with an updated volume exited with "
                             "status 0, but the full-resolution scale does "
                             "not hold the new voxels (%s)" % describe(case))
                # ... and back to the original volume for the later steps
                must("v2p", v2p_args, "conversion of the original volume "
                     "into the dataset again")
                _, lv_back = read_dataset_scale0(ctx, p2)
                if not same_levels(lv_back, lv_a):
                    ctx.fail("after converting the original volume into the "
                             "dataset again, the full-resolution scale "
                             "differs from the first conversion (%s)"
                             % describe(case))
                ctx.count("updated_volume_reconverted")
        comp_args = [sp(p2)] + ds_opts(case) + common_opts(case)
        must("compute", comp_args, "step-by-step")
        info2, levels2 = read_dataset(ctx, p2, "step-by-step pipeline")
        if case["repeat"] in ("compute", "both"):
            must("compute", comp_args, "repeated compute-scales")
            info2b, levels2b = read_dataset(ctx, p2, "after repeated "
                                            "compute-scales")
            if info2b != info2 or not same_levels(levels2, levels2b):
                ctx.fail("running compute-scales a second time changed the "
                         "decoded dataset (%s)" % describe(case))
        if case["stats"]:
            must("stats", [sp(p2)], "scale-stats")
        # ---- optional re-encoding -------------------------------------------
        if case["convert"] and not (
                case["convert"] == "compressed_segmentation"
                and info2["data_type"] not in ("uint8", "uint16", "uint32",
                                               "uint64")):
            p3 = os.path.join(base, "p3")
            args = [os.path.join(p2, "info_fullres.json"), sp(p3),
                    "--encoding", case["convert"]]
            if case["type"]:
                args += ["--type", case["type"]]
            keep = len(levels2)
            if keep >= 2 and case["seed"] % 4 == 3:
                # only the finest scales are re-encoded: the destination
                # pyramid is generated with a smaller --max-scales
                keep -= 1
                args += ["--max-scales", str(keep)]
                ctx.count("reencoded_with_fewer_scales")
            must("gsi", args, "re-encoding")
            with open(os.path.join(p3, "info")) as f:
                keys3 = [s_["key"] for s_ in json.load(f)["scales"]]
            keys2 = [s_["key"] for s_ in info2["scales"]]
            if keys3 != keys2[:len(keys3)]:
                # (a shorter pyramid may name its scales in another unit:
                # then it is not a description of the source's scales)
                ctx.count("shorter_pyramid_has_other_keys")
                levels3 = []
            else:
                must("convert", [sp(p2), sp(p3)] + common_opts(case),
                     "re-encoding")
                info3, levels3 = read_dataset(ctx, p3,
                                              "convert-chunks output")
                if len(levels3) != keep:
                    ctx.fail("re-encoded dataset has %d scales, expected %d"
                             % (len(levels3), keep))
            for i, (a, b) in enumerate(zip(levels2, levels3)):
                if not np.array_equal(a.astype(b.dtype), b,
                                      equal_nan=b.dtype.kind == "f"):
                    ctx.fail("convert-chunks changed the voxels of scale %d "
                             "(%s)" % (i, describe(case)))
        # ---- P1: the all-in-one command --------------------------------------
        if case["sharding"] is None:
            p1 = os.path.join(base, "p1")
            args = [path, sp(p1)] + read_opts(case) + info_opts(case) + \
                ds_opts(case) + common_opts(case)
            must("pyramid", args, "all-in-one")
            info1, levels1 = read_dataset(ctx, p1, "all-in-one command")
            if info1 != info2:
                ctx.fail("the all-in-one command wrote a different info than "
                         "the step-by-step pipeline: %s vs %s (%s)" % (
                             json.dumps(info1, sort_keys=True)[:300],
                             json.dumps(info2, sort_keys=True)[:300],
                             describe(case)))
            for i, (a, b) in enumerate(zip(levels1, levels2)):
                if not same_array(a, b):
                    bad = np.argwhere(a != b) if a.shape == b.shape and \
                        a.dtype.kind != "f" else np.argwhere(
                            ~((a == b) | (np.isnan(a) & np.isnan(b)))) \
                        if a.shape == b.shape else []
                    ctx.fail("scale %d (%s): the all-in-one command and the "
                             "step-by-step pipeline produce different voxels,"
                             " e.g. at (c,z,y,x)=%s: %r vs %r (%s)" % (
                                 i, info1["scales"][i]["key"],
                                 bad[0].tolist() if len(bad) else "?",
                                 a[tuple(bad[0])].item() if len(bad) else "",
                                 b[tuple(bad[0])].item() if len(bad) else "",
                                 describe(case)))
        return len(info2["scales"])
    finally:
        ctx.rmtree(root)


def read_dataset_scale0(ctx, path):
    try:
        pio = ds.open_dataset(path)
        info = pio.info
        return info, [ds.read_scale(pio, info["scales"][0], info["data_type"],
                                    info["num_channels"])]
    except Exception as exc:
        ctx.fail("volume-to-precomputed exited with status 0 but the full-"
                 "resolution scale is not complete/readable: %s %s" % (
                     type(exc).__name__, exc))


def describe(case):
    keys = ["shape", "channels", "voxel_sizes", "stored", "scaling", "type",
            "encoding", "method", "outside", "gzip", "flat", "minmax",
            "ignore_scaling", "mmap", "sharding", "repeat", "convert"]
    return ", ".join("%s=%s" % (k, case[k]) for k in keys)


def run(ctx, n):
    def check(ctx, case):
        nscales = check_case(ctx, case)
        if nscales is None:
            return
        ctx.record(case, nscales >= 2 and case["repeat"] is not None, [
            "scales%d" % min(nscales, 4),
            "repeat." + str(case["repeat"]),
            "sharded" if case["sharding"] else "unsharded",
            "enc." + str(case["encoding"]), "method." + str(case["method"]),
            "convert." + str(case["convert"]),
            "spelling." + case.get("spelling", "plain")])
    ctx.run_hypothesis(cases(), check, n)


def run_subprocess(ctx, n):
    def check(ctx, case):
        mode = "subprocess-O" if case["seed"] % 2 else "subprocess"
        nscales = check_case(ctx, case, mode=mode)
        if nscales is None:
            return
        ctx.record(case, nscales >= 2 and case["repeat"] is not None,
                   [mode])
    ctx.run_hypothesis(cases(), check, n)


def grid_cases():
    """The complete product of stored type x encoding x dataset type x
    downscaling method x sharding x value mapping, the remaining options
    rotating, on one volume with a long axis (two or three scales)."""
    out = []
    k = 0
    mappings = [(None, None, False), ([1.0, 100.0], None, True),
                ([2.0, 1.0], None, False), (None, [0.0, 100.0], False),
                ([1.0, -16.0], None, False)]
    for stored in ("uint8", "int16", "uint16", "float32", "uint32", "uint64"):
        for enc in (None, "raw", "compressed_segmentation", "jpeg"):
            if enc == "compressed_segmentation" and stored in (
                    "int16", "float32"):
                continue
            if enc == "jpeg" and stored != "uint8":
                continue
            if stored == "uint64" and enc != "compressed_segmentation":
                continue
            for typ in (None, "image", "segmentation"):
                for method in (None, "average", "majority", "stride"):
                    for sharded in (False, True):
                        for scaling, mm, ign in mappings:
                            if enc in ("compressed_segmentation",
                                       "jpeg") and (scaling or mm):
                                continue
                            k += 1
                            shape = [2, 3, 2]
                            shape[k % 3] = 130
                            out.append({
                                "shape": shape,
                                "channels": (1, 3)[k % 2] if enc == "jpeg"
                                else 1 + (k % 5 == 0),
                                "voxel_sizes": [1, 1, 1], "stored": stored,
                                "scaling": scaling, "type": typ,
                                "encoding": enc, "method": method,
                                "outside": (None, 0, 100)[k % 3],
                                "gzip": k % 2 == 0, "flat": k % 4 < 2,
                                "minmax": mm, "ignore_scaling": ign,
                                "mmap": k % 3 == 0,
                                "sharding": "%d,%d,%d" % (k % 2, 1 + k % 2,
                                                          k % 3)
                                if sharded else None,
                                "repeat": (None, "v2p", "compute",
                                           "both")[k % 4],
                                "spelling": "plain",
                                "convert": (None, "raw", None,
                                            "compressed_segmentation")[k % 4],
                                "stats": k % 2 == 1, "seed": k})
    return out


def run_grid(ctx, n):
    def check(ctx, case):
        nscales = check_case(ctx, case)
        if nscales is None:
            return
        ctx.record(case, nscales >= 2, [
            "stored." + case["stored"], "enc." + str(case["encoding"]),
            "type." + str(case["type"]), "method." + str(case["method"]),
            "sharded" if case["sharding"] else "unsharded"])
    ctx.run_grid(grid_cases(), check)


# ---- volume files the tools cannot convert ---------------------------------
ODD_SHAPES = [[5, 4, 3, 1, 2], [5, 4, 3, 1, 1], [6, 5], [4, 3, 2, 2, 1],
              [7], [3, 3, 3, 1, 1, 2]]


def check_unsupported(ctx, case):
    """A volume file with a number of dimensions the converter does not
    handle (NIfTI vector layout X,Y,Z,1,C; a 2-D image; ...): each command
    may refuse it with a non-zero status; a pipeline in which EVERY command
    reported success must have produced a complete, readable dataset."""
    import nibabel
    root = ctx.tmpdir("odd")
    try:
        shape = case["shape"]
        rng = np.random.default_rng(case["seed"])
        vol = rng.integers(0, 200, size=shape).astype(case["stored"])
        path = os.path.join(root, "vol.nii")
        nibabel.save(nibabel.Nifti1Image(vol, np.eye(4)), path)
        opts = [] if case["gzip"] else ["--no-gzip"]
        pipelines = {
            "all-in-one": [("pyramid", lambda d: [path, d] + opts)],
            "step-by-step": [
                ("v2p", lambda d: [path, d, "--generate-info"] + opts),
                ("gsi", lambda d: [os.path.join(d, "info_fullres.json"), d]),
                ("v2p", lambda d: [path, d] + opts),
                ("compute", lambda d: [d] + opts)]}
        outcome = {}
        for name, steps in pipelines.items():
            d = os.path.join(root, name.replace("-", "_"))
            refused = None
            for cmd, mk in steps:
                rc, err = run_cmd(cmd, mk(d))
                if rc not in (0, 4) or (rc == 4 and cmd != "v2p"):
                    refused = cmd
                    break
            outcome[name] = refused
            if refused is None:
                # every command claimed success: the dataset must be there
                read_dataset(ctx, d, "%s pipeline on a %d-D volume file %s"
                             % (name, len(shape), shape))
        return outcome
    finally:
        ctx.rmtree(root)


def run_unsupported(ctx, n):
    cases_ = []
    for k, shape in enumerate(ODD_SHAPES):
        for stored in ("uint8", "float32"):
            cases_.append({"shape": shape, "stored": stored,
                           "gzip": k % 2 == 0, "seed": k,
                           "unsupported_volume": True})

    def check(ctx, case):
        out = check_unsupported(ctx, case)
        ctx.record(case, True, ["dims%d" % len(case["shape"])] + [
            "%s.%s" % (k, "completed" if v is None else "refused")
            for k, v in out.items()])
    ctx.run_grid(cases_, check)


def subprocess_grid_cases():
    """Real processes, with and without `python -O`, for every combination
    of --no-gzip / --flat / sharding (16 cases)."""
    base = [c for c in grid_cases() if c["stored"] == "uint8"
            and c["encoding"] is None and c["method"] is None
            and c["type"] is None and c["scaling"] is None
            and c["minmax"] is None][0]
    out = []
    for opt in (0, 1):
        for gz in (False, True):
            for flat in (False, True):
                for sharded in (False, True):
                    c = dict(base, gzip=gz, flat=flat, repeat="both",
                             sharding="1,1,0" if sharded else None,
                             convert="raw", stats=True)
                    c["seed"] = 2 * len(out) + opt   # parity selects -O
                    out.append(c)
    return out


def run_subprocess_grid(ctx, n):
    def check(ctx, case):
        mode = "subprocess-O" if case["seed"] % 2 else "subprocess"
        nscales = check_case(ctx, case, mode=mode)
        if nscales is None:
            return
        ctx.record(case, nscales >= 2, [
            mode, "gzip" if case["gzip"] else "no_gzip",
            "flat" if case["flat"] else "deep",
            "sharded" if case["sharding"] else "unsharded"])
    ctx.run_grid(subprocess_grid_cases(), check)


def replay(ctx, case):
    if case.get("unsupported_volume"):
        check_unsupported(ctx, case)
    else:
        check_case(ctx, case)


SUBS = [
    Sub("programs", run, replay, quick=150, thorough=15000, min_per_shard=5),
    Sub("subprocess", run_subprocess, replay, quick=12, thorough=600,
        shards=6, min_per_shard=2),
    Sub("option_grid", run_grid, replay, quick=1, thorough=1, shards=14,
        sweep=True),
    Sub("subprocess_grid", run_subprocess_grid, replay, quick=1, thorough=1,
        shards=8, sweep=True),
    Sub("unsupported_volume", run_unsupported, replay, quick=1, thorough=1,
        shards=6, sweep=True),
]
