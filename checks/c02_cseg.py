"""C02 - compressed_segmentation output conforms to the Neuroglancer format."""
import numpy as np
from hypothesis import strategies as st

from vlib import datasets as ds
from vlib.refs import cseg_spec
from vlib.runner import HarnessError, Sub

PROPERTY = "C02"
META = {
    "level": "exploration",
    "rule": ("Hypothesis draws dtype, channels 1..3, chunk X,Y,Z 1..12, block "
             "bx,by,bz 1..9 (cubic and non-cubic), per-block palette size "
             "class {1,2,3-4,5-16,17-256,>256}, label value class; label "
             "fields are a pure function of the drawn integers. non-trivial "
             "= (>= 2 blocks or block padding present) and a block with "
             "bits >= 1; distinct by the whole case. Two constructed families "
             "reach 16- and 32-bit blocks."
             ' Also: encoders obtained through get_encoder (full and borde'
             'r chunks), six memory layouts of the input array, labels at '
             'the type maximum, near-identical and fingerprint-colliding l'
             'ookup tables (same length / ends / byte sum / CRC-32); via_d'
             'ataset: multi-scale datasets with per-scale block sizes writ'
             'ten through PrecomputedIO; huge_channel: 18 and 84 MiB chann'
             'els (24-bit table offsets).'
             " Round 12: regular label structure (labels depending on one coordinate, flat-periodic, tiled)."
             " Round 21: chunks handed over as masked arrays (lossless encodings: the data are the chunk)."
             " Round 17: the object returned by encode() is compared again after the same encoder encoded two more chunks."),
    "trusted_base": ["vlib/refs/cseg_spec.py decoder/validator written from "
                     "the format description; cross-checked against a "
                     "hand-assembled file at start-up"],
}


def selftest_reference():
    # hand-assembled file: 1 channel, uint32, volume X=2,Y=1,Z=1, block 2x1x1,
    # labels [5, 9]
    hand = bytes.fromhex("01000000" "02000001" "04000000" "05000000"
                         "09000000" "02000000")
    want = np.array([5, 9], dtype="<u4").reshape(1, 1, 1, 2)
    got = cseg_spec.decode(hand, (1, 1, 1, 2), (2, 1, 1), "<u4")
    if not np.array_equal(got, want):
        raise HarnessError("cseg_spec.decode fails its hand-computed vector")
    if cseg_spec.encode(want, (2, 1, 1)) != hand:
        raise HarnessError("cseg_spec.encode fails its hand-computed vector")
    # uint64, two blocks along y, second block constant (0 bits)
    arr = np.array([[[[2 ** 40 + 1, 7]], [[3, 3]]]], dtype="<u8").reshape(
        1, 1, 2, 2)
    enc = cseg_spec.encode(arr, (2, 1, 1))
    if not np.array_equal(cseg_spec.decode(enc, arr.shape, (2, 1, 1), "<u8"),
                          arr):
        raise HarnessError("cseg_spec round trip fails")


PAL_CLASSES = {"1": (1, 1), "2": (2, 2), "3-4": (3, 4), "5-16": (5, 16),
               "17-256": (17, 256), ">256": (257, 600)}


def value_pool(rng, vclass, dtype, k):
    hi = np.iinfo(dtype).max
    if vclass == "small":
        base = 0
    elif vclass == "ge2^32" and hi > 2 ** 32:
        base = 2 ** 32
    elif vclass == "ge2^53" and hi > 2 ** 53:
        base = 2 ** 53
    elif vclass == "max":
        base = hi - 4 * k + 1        # the pool reaches the type maximum itself
    else:
        base = 1000
    vals = base + rng.choice(4 * k, size=k, replace=False).astype(np.uint64)
    if vclass == "max" and rng.random() < .5:
        vals[0] = hi                 # ... and does so in half of the blocks
        vals = np.unique(vals)
    return vals.astype(dtype)


CRC32_MULTIPLE = 0x1DB710641     # XOR-ing it into a message keeps its CRC-32


def fingerprint_chunk(case, dtype, rng):
    """Blocks whose lookup tables are DIFFERENT but agree in length, in their
    smallest / largest entries, in the multiset (sum, XOR) of their bytes or
    in their CRC-32: whatever cheap fingerprint an encoder might use to spot
    'the same table again', the tables still differ."""
    C = case["channels"]
    X, Y, Z = case["size"]
    bx, by, bz = case["block"]
    wide = dtype.itemsize == 8
    shift = 40 if wide else 16
    out = np.zeros((C, Z, Y, X), dtype=dtype)
    k = int(rng.integers(2, 5))
    if bx * by * bz >= 70 and rng.random() < .5:
        # tables of 66..130 entries (beyond what a cache might compare in
        # full), as many as the block has room for
        k = int(min(bx * by * bz, rng.integers(66, 131)))
    base = [((j + 1) << shift) | (0x0100 if j == 0 else 0x0001 if j == 1
                                  else 0x0203 + j) for j in range(k)]
    variants = [list(base)]
    v1 = list(base)                   # bytes swapped between two entries
    v1[0] = (1 << shift) | 0x0001
    v1[1] = (2 << shift) | 0x0100
    variants.append(v1)
    v2 = list(base)                   # a middle entry changed
    v2[k // 2] ^= 0x0400
    variants.append(v2)
    if wide:
        v3 = list(base)               # equal CRC-32
        v3[0] ^= CRC32_MULTIPLE
        variants.append(v3)
        v4 = list(base)
        v4[k - 1] ^= CRC32_MULTIPLE
        variants.append(v4)
    n = 0
    for c in range(C):
        for z0 in range(0, Z, bz):
            for y0 in range(0, Y, by):
                for x0 in range(0, X, bx):
                    pal = np.array(variants[n % len(variants)], dtype=dtype)
                    n += 1
                    sub = out[c, z0:z0 + bz, y0:y0 + by, x0:x0 + bx]
                    idx = np.arange(sub.size) % len(pal)
                    sub[...] = pal[rng.permutation(idx)].reshape(sub.shape)
    return out


def build_chunk(case):
    dtype = np.dtype(case["dtype"]).newbyteorder("<")
    C = case["channels"]
    X, Y, Z = case["size"]
    bx, by, bz = case["block"]
    rng = np.random.default_rng(case["seed"])
    out = np.zeros((C, Z, Y, X), dtype=dtype)
    if case.get("uniform"):
        out[...] = value_pool(rng, case["values"], dtype, 1)[0]
        return out
    if case["values"] == "fingerprint":
        return fingerprint_chunk(case, dtype, rng)
    if case.get("structure"):
        return ds.regular_labels((C, Z, Y, X), dtype, rng, case["structure"],
                                 block=case["block"])
    prev = None
    for c in range(C):
        for z0 in range(0, Z, bz):
            for y0 in range(0, Y, by):
                for x0 in range(0, X, bx):
                    cls = case["pal"][int(rng.integers(len(case["pal"])))]
                    lo, hi = PAL_CLASSES[cls]
                    k = int(rng.integers(lo, hi + 1))
                    near = False
                    if prev is not None and case["share"] and rng.random() < .4:
                        pal = prev
                        if len(prev) > 2 and rng.random() < .5:
                            # a table that differs from the previous one in a
                            # single entry somewhere in the middle (same
                            # length, same smallest and largest labels)
                            srt = np.sort(prev)
                            i = int(rng.integers(1, len(srt) - 1))
                            lo_, hi_ = int(srt[i - 1]), int(srt[i + 1])
                            cand = [v for v in range(lo_ + 1, min(hi_, lo_ + 9))
                                    if v != int(srt[i])]
                            if cand:
                                srt = srt.copy()
                                srt[i] = cand[0]
                                pal = srt
                                near = True
                    else:
                        pal = value_pool(rng, case["values"], dtype, k)
                    prev = pal
                    sub = out[c, z0:z0 + bz, y0:y0 + by, x0:x0 + bx]
                    if (near or case["share"]) and sub.size >= len(pal):
                        # every label of the table really occurs in the block
                        idx = np.arange(sub.size) % len(pal)
                        sub[...] = pal[rng.permutation(idx)].reshape(sub.shape)
                    else:
                        sub[...] = pal[rng.integers(len(pal), size=sub.shape)]
    return out


@st.composite
def cases(draw):
    dim = st.one_of(st.integers(1, 12), st.sampled_from([1, 7, 8, 9, 12]))
    bdim = st.one_of(st.integers(1, 9), st.sampled_from([1, 2, 4, 8]))
    if draw(st.booleans()):
        b = draw(bdim)
        block = [b, b, b]
    else:
        block = [draw(bdim), draw(bdim), draw(bdim)]
    return {
        "dtype": draw(st.sampled_from(["uint32", "uint64"])),
        "channels": draw(st.integers(1, 3)),
        "size": [draw(dim), draw(dim), draw(dim)],
        "block": block,
        "pal": draw(st.lists(st.sampled_from(sorted(PAL_CLASSES)), min_size=1,
                             max_size=3)),
        "values": draw(st.sampled_from(["small", "ge2^32", "ge2^53", "max",
                                        "mid", "fingerprint"])),
        "share": draw(st.booleans()),
        "uniform": draw(st.integers(0, 11)) == 0,
        "seed": draw(st.integers(0, 2 ** 32 - 1)),
        # how the encoder object is obtained: constructed directly, or from
        # the info through the factory every I/O path uses ("info": the
        # scale's chunk size is this chunk's size; "info_border": this chunk
        # is a border chunk of a scale with larger chunks)
        "via": draw(st.sampled_from(["direct", "info", "info_border"])),
        # regular label structure (labels depending on one coordinate only,
        # periodic in the flat voxel index, one tile repeated): many blocks,
        # also border blocks of different shapes, hold identical sequences
        "structure": draw(st.sampled_from([None, None, None, "one_axis",
                                           "flat_periodic", "tiled"])),
    }


def make_encoder(dtype_name, channels, block_arg, shape, via):
    from neuroglancer_scripts import chunk_encoding
    if via == "direct":
        return chunk_encoding.CompressedSegmentationEncoder(
            dtype_name, channels, block_arg)
    X, Y, Z = shape[3], shape[2], shape[1]
    cs = [X, Y, Z] if via == "info" else [X + 3, Y, 2 * Z]
    scale = {"key": "s", "size": [X, Y, Z], "resolution": [1, 1, 1],
             "voxel_offset": [0, 0, 0], "chunk_sizes": [cs],
             "encoding": "compressed_segmentation",
             "compressed_segmentation_block_size": block_arg}
    info = {"type": "segmentation", "data_type": dtype_name,
            "num_channels": channels, "scales": [scale]}
    enc = chunk_encoding.get_encoder(info, scale)
    if list(scale["compressed_segmentation_block_size"]) != list(block_arg):
        raise AssertionError("get_encoder changed the block size in the info")
    return enc


def check_chunk(ctx, chunk, block, dtype_name, what, via="direct"):
    block_arg = list(block)
    try:
        enc = make_encoder(dtype_name, chunk.shape[0], block_arg,
                           chunk.shape, via)
    except Exception as exc:
        ctx.fail("no encoder for a valid scale (%s, via %s): %s: %s" % (
            what, via, type(exc).__name__, exc))
    try:
        if chunk.size <= 4096:
            # the same encoder object is used for many chunks by the I/O
            # layer: encode another chunk first, and this one twice
            other = np.roll(chunk, 1, axis=3) + chunk.dtype.type(1)
            enc.encode(other)
            # ... and a chunk with the same labels and voxel count but another
            # shape (border chunks of one scale differ in shape only)
            enc.encode(np.ascontiguousarray(chunk.transpose(0, 3, 2, 1)))
            first = bytes(enc.encode(chunk))
        buf = bytes(enc.encode(chunk))
        if chunk.size <= 4096 and buf != first:
            ctx.fail("encoding the same chunk twice with one encoder object "
                     "gives different bytes (%s)" % what)
        if block_arg != list(block):
            ctx.fail("the encoder modified its block_size argument")
        if chunk.size <= 4096:
            # the buffers of several encoded chunks are alive together (a
            # caller that encodes a list of chunks, then stores them): the
            # object returned for one chunk must not change when the same
            # encoder encodes the next one
            kept = enc.encode(chunk)
            enc.encode(other)
            enc.encode(np.ascontiguousarray(chunk.transpose(0, 3, 2, 1)))
            if bytes(kept) != buf:
                ctx.fail("the buffer returned for one chunk changed when "
                         "the same encoder encoded the next chunk (%s)"
                         % what)
    except Exception as exc:
        if isinstance(exc, AssertionError):
            raise
        ctx.fail("encode raised %s: %s (%s)" % (type(exc).__name__, exc,
                                                what))
    shape = tuple(chunk.shape)
    try:
        stats = cseg_spec.validate(buf, shape, block, chunk.dtype)
        ref = cseg_spec.decode(buf, shape, block, chunk.dtype)
    except cseg_spec.SpecError as exc:
        ctx.fail("encoded file is not well formed: %s (%s)" % (exc, what))
    if not np.array_equal(ref, chunk):
        bad = np.argwhere(ref != chunk)[0].tolist()
        ctx.fail("spec-only decoder recovers a different array: first "
                 "difference at (c,z,y,x)=%s: %d instead of %d (%s)" % (
                     bad, int(ref[tuple(bad)]), int(chunk[tuple(bad)]), what))
    # the same values in another memory layout (views of a larger volume,
    # re-oriented stacks, big-endian files) must encode the same labels
    if chunk.size <= 4096:
        for layout in ds.LAYOUTS_IO[1:]:
            try:
                vbuf = bytes(enc.encode(ds.laid_out(chunk, layout)))
                vref = cseg_spec.decode(vbuf, shape, block, chunk.dtype)
            except Exception as exc:
                ctx.fail("encoding a %s array failed or is not well formed: "
                         "%s: %s (%s)" % (layout, type(exc).__name__, exc,
                                          what))
            if not np.array_equal(vref, chunk):
                bad = np.argwhere(vref != chunk)[0].tolist()
                ctx.fail("spec-only decoder recovers a different array from "
                         "the encoding of a %s array: first difference at "
                         "(c,z,y,x)=%s (%s)" % (layout, bad, what))
    # labels held in a narrower type that converts safely (uint32 / uint16
    # / uint8 arrays handed to a uint64 or uint32 encoder)
    if chunk.size <= 4096:
        for narrow in ("<u4", "<u2", "<u1"):
            nd = np.dtype(narrow)
            if nd.itemsize >= chunk.dtype.itemsize or \
                    int(chunk.max()) > np.iinfo(nd).max:
                continue
            try:
                vbuf = bytes(enc.encode(chunk.astype(nd)))
                vref = cseg_spec.decode(vbuf, shape, block, chunk.dtype)
            except Exception as exc:
                ctx.fail("encoding a %s array with a %s encoder failed or is "
                         "not well formed: %s: %s (%s)" % (
                             nd, dtype_name, type(exc).__name__, exc, what))
            if not np.array_equal(vref, chunk):
                ctx.fail("spec-only decoder recovers a different array from "
                         "the encoding of a %s array by a %s encoder (%s)" % (
                             nd, dtype_name, what))
            break
    X, Y, Z = shape[3], shape[2], shape[1]
    try:
        own = enc.decode(buf, (X, Y, Z))
    except Exception as exc:
        ctx.fail("package decoder raised %s: %s on the package's own output "
                 "(%s)" % (type(exc).__name__, exc, what))
    if own.shape != shape or own.dtype != chunk.dtype:
        ctx.fail("package decoder returned shape %s dtype %s, expected %s %s"
                 % (own.shape, own.dtype, shape, chunk.dtype))
    if not np.array_equal(own, chunk):
        bad = np.argwhere(own != chunk)[0].tolist()
        ctx.fail("package decoder recovers a different array at %s (%s)" % (
            bad, what))
    return stats


def check_case(ctx, case):
    chunk = build_chunk(case)
    block = case["block"]
    what = "dtype=%s C=%d size=%s block=%s" % (
        case["dtype"], case["channels"], case["size"], block)
    stats = check_chunk(ctx, chunk, block, case["dtype"], what,
                        case.get("via", "direct"))
    X, Y, Z = case["size"]
    nblocks = (-(-X // block[0])) * (-(-Y // block[1])) * (-(-Z // block[2]))
    padded = any(s % b for s, b in zip(case["size"], block))
    return stats, (nblocks >= 2 or padded) and any(b for b in stats if b)


def run(ctx, n):
    selftest_reference()

    def check(ctx, case):
        stats, nt = check_case(ctx, case)
        classes = ["bits%d" % b for b in stats]
        classes.append("cubic" if len(set(case["block"])) == 1 else "noncubic")
        classes.append(case["dtype"])
        classes.append("via_" + case["via"])
        classes.append("structure_" + str(case.get("structure") or "random"))
        ctx.record(case, nt, classes)
    ctx.run_hypothesis(cases(), check, n)


# ---- constructed families: 16-bit and 32-bit blocks -------------------------
def build_family(case):
    dtype = np.dtype(case["dtype"]).newbyteorder("<")
    X, Y, Z = case["size"]
    n = X * Y * Z
    rng = np.random.default_rng(case["seed"])
    base = int(case.get("base", 0))
    if case.get("family") == "tables":
        # random (not consecutive) labels: every block has its own table
        hi = int(np.iinfo(dtype).max)
        vals = rng.integers(0, hi, size=n, dtype=np.uint64,
                            endpoint=True).astype(dtype)
        return vals.reshape(1, Z, Y, X)
    vals = (base + rng.permutation(n).astype(np.uint64)).astype(dtype)
    return vals.reshape(1, Z, Y, X)


def check_family(ctx, case):
    chunk = build_family(case)
    what = "all-distinct labels, dtype=%s size=%s block=%s" % (
        case["dtype"], case["size"], case["block"])
    return check_chunk(ctx, chunk, case["block"], case["dtype"], what)


def run_family(bits):
    def run(ctx, n):
        selftest_reference()
        if bits == 16:
            strat = st.builds(
                lambda d, s, e, seed, base: {
                    "dtype": d, "size": [s + e, s, s], "block": [s, s, s],
                    "seed": seed, "base": base},
                st.sampled_from(["uint32", "uint64"]), st.integers(7, 10),
                st.integers(0, 3), st.integers(0, 2 ** 32 - 1),
                st.sampled_from([0, 2 ** 31, 2 ** 32 - 5000]))
        else:
            strat = st.builds(
                lambda d, e, seed: {
                    "dtype": d, "size": [41, 41, 41 + e],
                    "block": [41, 41, 41 + e], "seed": seed, "base": 0},
                st.sampled_from(["uint32", "uint64"]), st.integers(0, 1),
                st.integers(0, 2 ** 32 - 1))

        def check(ctx, case):
            stats = check_family(ctx, case)
            if bits not in stats:
                raise HarnessError("family did not reach %d bits: %r" % (
                    bits, stats))
            ctx.record(case, True, ["bits%d" % b for b in stats])
        ctx.run_hypothesis(strat, check, n)
    return run


def run_many_tables(ctx, n):
    """Chunks with ~10^5 blocks, each with its own lookup table (table
    de-duplication, 24-bit table offsets, large files)."""
    selftest_reference()
    strat = st.builds(
        lambda d, s, b, seed: {"dtype": d, "size": s, "block": b,
                               "seed": seed, "base": 0, "family": "tables"},
        st.sampled_from(["uint64", "uint32"]),
        st.sampled_from([[64, 64, 32], [64, 32, 64]] if ctx.tier == "quick"
                        else [[64, 64, 64], [128, 64, 32], [64, 48, 80]]),
        st.sampled_from([[2, 1, 1], [1, 2, 1], [1, 1, 2]]),
        st.integers(0, 2 ** 32 - 1))

    def check(ctx, case):
        stats = check_family(ctx, case)
        ctx.record(case, True, ["bits%d" % b for b in stats] + ["blocks>1e5"])
    ctx.run_hypothesis(strat, check, n)


# ---- chunks written through the dataset I/O layer ----------------------------
@st.composite
def dataset_cases(draw):
    b = st.sampled_from([1, 2, 3, 4, 8])
    n = draw(st.integers(1, 3))
    return {"dtype": draw(st.sampled_from(["uint32", "uint64"])),
            "channels": draw(st.integers(1, 2)),
            "scales": [{"size": [draw(st.integers(1, 9)) for _ in range(3)],
                        "chunk": [draw(st.integers(1, 6)) for _ in range(3)],
                        "block": [draw(b), draw(b), draw(b)]}
                       for _ in range(n)],
            "pal": ["2", "3-4", "5-16"], "values": draw(st.sampled_from(
                ["small", "ge2^32", "max"])), "share": True,
            "flat": draw(st.booleans()), "seed": draw(st.integers(0, 10 ** 6))}


def check_dataset(ctx, case):
    """Every compressed_segmentation chunk file of a multi-scale dataset,
    written through PrecomputedIO, decodes from the format description with
    the block size that the info announces for its scale."""
    import os
    d = ctx.tmpdir("csegds")
    try:
        scales = [ds.make_scale("s%d" % i, sc["size"], sc["chunk"],
                                "compressed_segmentation", block=sc["block"])
                  for i, sc in enumerate(case["scales"])]
        info = ds.make_info(case["dtype"], case["channels"], scales,
                            "segmentation")
        pio = ds.new_dataset(info, {"type": "file", "flat": case["flat"],
                                    "gzip": True, "compresslevel": 1},
                             os.path.join(d, "ds"))
        for i, (sc, p) in enumerate(zip(scales, case["scales"])):
            vol = build_chunk({"dtype": case["dtype"], "channels":
                               case["channels"], "size": p["size"], "block":
                               p["block"], "pal": case["pal"], "values":
                               case["values"], "share": True, "seed":
                               case["seed"] + i})
            ds.write_scale(pio, sc, vol)
            for cc in ds.chunk_coords_list(sc["size"], sc["chunk_sizes"][0]):
                x0, x1, y0, y1, z0, z1 = cc
                want = vol[:, z0:z1, y0:y1, x0:x1]
                buf = bytes(pio.accessor.fetch_chunk(sc["key"], cc))
                try:
                    ref = cseg_spec.decode(buf, want.shape, p["block"],
                                           want.dtype)
                except cseg_spec.SpecError as exc:
                    ctx.fail("chunk %s of scale %d (block size %s in the "
                             "info) is not decodable from the format "
                             "description: %s (scales %s)" % (
                                 cc, i, p["block"], exc, case["scales"]))
                if not np.array_equal(ref, want):
                    ctx.fail("chunk %s of scale %d decodes to other labels "
                             "with the block size %s of its scale (scales %s)"
                             % (cc, i, p["block"], case["scales"]))
        return len({tuple(p["block"]) for p in case["scales"]}) >= 2
    finally:
        ctx.rmtree(d)


def run_dataset(ctx, n):
    def check(ctx, case):
        nt = check_dataset(ctx, case)
        ctx.record(case, nt, ["scales%d" % len(case["scales"]),
                              case["dtype"]])
    ctx.run_hypothesis(dataset_cases(), check, n)


# ---- one channel beyond the 24-bit table offsets of the block headers ---------
def check_huge(ctx, case):
    """A channel whose encoding passes 2**24 words (64 MiB): a block that
    needs a NEW lookup table beyond that point cannot be expressed by the
    24-bit table offset of the format - the encoder must refuse, not write a
    wrapped offset.  A channel below the limit (case["blocks"] small) must
    encode correctly; sampled blocks (first, last, around the 2**22 / 2**24
    word marks) are decoded from the format description."""
    from neuroglancer_scripts.chunk_encoding import \
        CompressedSegmentationEncoder
    nb = case["blocks"]                   # 64x64x64 blocks stacked along z
    side = case.get("side", 64)
    vox = side ** 3
    rng = np.random.default_rng(case["seed"])
    chunk = np.empty((1, side * nb, side, side), dtype="<u8")
    # all-distinct labels in every block but the last two (two labels each)
    for b in range(nb):
        blk = chunk[0, b * side:(b + 1) * side]
        if b >= nb - 2:
            blk[...] = rng.integers(1, 3, size=blk.shape) + 10 * (b + 1)
        else:
            blk[...] = (np.arange(vox, dtype=np.uint64) + np.uint64(
                b * vox + 2 ** 33)).reshape(blk.shape)
    enc = CompressedSegmentationEncoder("uint64", 1, [side, side, side])
    try:
        buf = bytes(enc.encode(chunk))
    except Exception:       # noqa   (a refusal is the right answer if > 2^24)
        return "refused"
    only = {0, nb - 1, nb - 2, nb // 2}
    sub = {b: chunk[0, b * side:b * side + 2, :2, :2].copy() for b in only}
    # decode 2x2x2 corners of the sampled blocks only (pure Python reader)
    for b in sorted(only):
        ref = cseg_spec.decode_corner(buf, chunk.shape, [side] * 3, "<u8",
                                      b, 2)
        if not np.array_equal(ref, sub[b]):
            ctx.fail("block %d of a %d-block channel (%d MiB encoded): the "
                     "file decodes to %s, the chunk holds %s" % (
                         b, nb, len(buf) >> 20, ref.reshape(-1)[:4].tolist(),
                         sub[b].reshape(-1)[:4].tolist()))
    return "encoded"


def run_huge(ctx, n):
    # 30 blocks of 64^3 distinct uint64 labels = 30 x (2 MiB table + 0.5 MiB
    # values): the table offsets pass 2**24 words at block 26
    for nb, side in ((6, 64), (30, 64))[:max(1, n)]:
        case = {"blocks": nb, "side": side, "seed": ctx.seed}
        try:
            out = check_huge(ctx, case)
        except AssertionError as exc:
            ctx.violations.append({"sub": "huge_channel", "case": case,
                                   "message": str(exc)})
            break
        ctx.record(case, True, ["huge." + out, "blocks%d" % nb])


def replay(ctx, case):
    if "blocks" in case:
        return check_huge(ctx, case)
    if "scales" in case:
        return check_dataset(ctx, case)
    selftest_reference()
    if "pal" in case:
        check_case(ctx, case)
    else:
        check_family(ctx, case)


SUBS = [
    Sub("encode", run, replay, quick=2400, thorough=100000),
    Sub("bits16", run_family(16), replay, quick=80, thorough=3000, shards=4),
    Sub("bits32", run_family(32), replay, quick=16, thorough=300, shards=4),
    Sub("via_dataset", run_dataset, replay, quick=150, thorough=6000),
    Sub("huge_channel", run_huge, replay, quick=2, thorough=2, shards=1),
    Sub("many_tables", run_many_tables, replay, quick=4, thorough=24,
        shards=2),  # ~65k (quick) / ~131k (thorough) lookup tables per chunk
]
