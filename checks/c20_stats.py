"""C20 - reported statistics match the dataset that is actually produced.

Sub-checks
  fmt_sweep   exhaustive sweep of readable_count over 0..2^22 (thorough 2^26)
              and windows around c*1024^k
  fmt_hyp     Hypothesis integers up to 2^70 (Python int and np.int64)
  stats       generated infos -> parsed stdout of show_scales_info vs exact
              integer arithmetic
  produced    small infos actually produced (volume -> pyramid) and compared
              with the report (files on disk, decoded bytes)
"""
import contextlib
import json
import io
import re
from fractions import Fraction

import numpy as np
from hypothesis import strategies as st

from vlib.runner import Sub

PROPERTY = "C20"
META = {
    "level": "exploration",
    "rule": ("formatter: every integer of the swept ranges is evaluated once "
             "(distinct by construction); non-trivial = needs a prefix "
             "(count >= 1000). statistics: Hypothesis-generated infos; "
             "non-trivial = >= 2 scales and a partial border chunk; distinct "
             "by the full info."
             ' Also: counts given as Python int, NumPy integers and (when '
             'exact) floats.'
             " Round 12: many-channel infos, NumPy-typed channel counts."),
    "exhaustive_parts": ["fmt_sweep: 0..2^22 (quick) / 0..2^26 (thorough) and "
                         "+-4096 windows around c*1024^k"],
    "trusted_base": ["Python int / Fraction arithmetic", "regex parser of the "
                     "printed report"],
    "assumptions": ["totals stay below 2^62 (np.int64 arithmetic of the tool)"],
}

PREFIX = {"": 1, "ki": 2 ** 10, "Mi": 2 ** 20, "Gi": 2 ** 30, "Ti": 2 ** 40,
          "Pi": 2 ** 50, "Ei": 2 ** 60}
_RX = re.compile(r"^(\d{1,3}(?:,\d{3})+|\d+)(?:\.(\d+))? (|ki|Mi|Gi|Ti|Pi|Ei)$")


def readable_problem(s, count):
    """None if string s is an acceptable rendering of integer count."""
    m = _RX.match(s)
    if not m:
        return "unparseable output %r" % s
    ipart, frac, prefix = m.group(1).replace(",", ""), m.group(2), m.group(3)
    factor = PREFIX[prefix]
    value = Fraction(int(ipart + (frac or "")), 10 ** len(frac or ""))
    unit = Fraction(1, 10 ** len(frac or ""))
    if prefix == "":
        if frac is not None or int(ipart) != count:
            return "un-prefixed %r is not the count %d" % (s, count)
        return None
    digits = (ipart + (frac or "")).lstrip("0")
    if len(digits) < 2:
        return "%r for %d has fewer than 2 significant digits" % (s, count)
    if count <= 2 ** 60 and len(s) > 6:
        return "%r for %d is longer than 6 characters" % (s, count)
    err = abs(value * factor - count)
    tol = unit * factor / 2 + Fraction(count, 2 ** 45)
    if err > tol:
        return "%r for %d is off by %s (> half a unit of the last digit %s)" % (
            s, count, float(err), float(unit * factor / 2))
    return None


def check_count(ctx, case):
    from neuroglancer_scripts.utils import readable_count
    count = case["count"]
    rep = case.get("rep") or ("np.int64" if case.get("np") else "int")
    arg = {"int": int, "np.int64": np.int64, "np.uint64": np.uint64,
           "float": float, "np.float64": np.float64}[rep](count)
    if int(arg) != count:
        raise AssertionError("harness: representation changes the count")
    s = readable_count(arg)
    p = readable_problem(s, count)
    if p:
        ctx.fail(p)


def _windows(tier):
    out = []
    for k in range(1, 7):
        for c in (1, Fraction(994, 100), Fraction(995, 100), 10,
                  Fraction(995, 10), 100, Fraction(9995, 10), 1000,
                  Fraction(10235, 10), 1024):
            centre = int(c * 1024 ** k)
            out.append((max(0, centre - 4096), centre + 4096))
    return out


def run_sweep(ctx, n):
    from neuroglancer_scripts.utils import readable_count
    top = 2 ** 22 if ctx.tier == "quick" else 2 ** 26
    ranges = [(0, top)] + _windows(ctx.tier)
    # this shard's slice of every range
    sh, ns = ctx.shard, ctx.nshards
    bad = None
    evals = nt = 0
    for lo, hi in ranges:
        span = hi - lo
        a = lo + span * sh // ns
        b = lo + span * (sh + 1) // ns
        for count in range(a, b):
            s = readable_count(count)
            # fast path: cheap structural pre-check, full check on anything odd
            p = readable_problem(s, count)
            if p and bad is None:
                bad = (count, p)
        evals += b - a
        nt += max(0, b - max(a, 1000))
    ctx.bulk(evals, nt)
    ctx.sample({"ranges": [[lo, hi] for lo, hi in ranges[:4]],
                "example": [12345, readable_count(12345)]})
    if bad:
        # smallest failing count of this shard is the minimal reproduction
        ctx.violations.append({"sub": "fmt_sweep", "case": {"count": bad[0]},
                               "message": bad[1]})


def run_hyp(ctx, n):
    boundary = st.builds(
        lambda k, c, d: max(0, int(c * 1024 ** k) + d),
        st.integers(1, 7),
        st.sampled_from([1, 9.94, 9.95, 10, 99.5, 100, 999.5, 1000, 1023.5,
                         1024]),
        st.integers(-5000, 5000))
    ints = st.one_of(st.integers(0, 2 ** 70), boundary,
                     st.integers(0, 70).map(lambda e: 2 ** e),
                     st.integers(0, 2 ** 20))
    def rep_of(c, r):
        # the same number as a Python int, a NumPy integer or a float (the
        # documented example formats 1e10); only exact representations
        if r == "np.int64" and c >= 2 ** 63:
            r = "np.uint64"
        if r == "np.uint64" and c >= 2 ** 64:
            r = "int"
        if r in ("float", "np.float64") and int(float(c)) != c:
            r = "int"
        return {"count": c, "rep": r}
    strat = st.builds(rep_of, ints, st.sampled_from(
        ["int", "int", "np.int64", "np.uint64", "float", "np.float64"]))

    def check(ctx, case):
        ctx.record(case, case["count"] >= 1000,
                   ["rep." + case["rep"],
                    "bits%02d" % (case["count"].bit_length() // 10 * 10)])
        check_count(ctx, case)
    ctx.run_hypothesis(strat, check, n)


# ---------------------------------------------------------------------------
# statistics
# ---------------------------------------------------------------------------
_LINE = re.compile(
    r"^Scale (?P<key>.*?), (?P<shard>Unsharded|Sharded: \d+bits), chunk size "
    r"\[(?P<cs>[\d, ]+)\]: (?P<chunks>-?[\d,]+) chunks, (?P<dirs>-?[\d,]+) "
    r"directories, raw uncompressed size (?P<size>.*)B$")
_TOTAL = re.compile(
    r"^Total: (?P<chunks>-?[\d,]+) chunks, (?P<dirs>-?[\d,]+) directories, "
    r"raw "
    r"uncompressed size (?P<size>.*)B$")

ITEMSIZE = {"uint8": 1, "uint16": 2, "uint32": 4, "uint64": 8, "float32": 4}


def info_strategy(max_size=10 ** 6):
    def build(dt, nch, scales):
        # stated assumption: totals stay below 2^62 (the tool computes with
        # np.int64); enforced by construction
        for sc in scales:
            while (sc["size"][0] * sc["size"][1] * sc["size"][2]
                   * ITEMSIZE[dt] * nch) >= 2 ** 59:
                a = max(range(3), key=lambda i: sc["size"][i])
                sc["size"][a] = max(1, sc["size"][a] // 2)
        return {"type": "image", "data_type": dt, "num_channels": nch,
                "scales": scales}
    size = st.one_of(st.integers(1, 300), st.integers(1, max_size))
    cs = st.one_of(st.sampled_from([1, 2, 16, 32, 64, 128]),
                   st.integers(1, 200))

    def scale(i):
        return st.builds(
            lambda sz, css, sharded, sb: dict(
                {"key": "s%d" % i, "size": sz, "chunk_sizes": css,
                 "encoding": "raw", "resolution": [1, 1, 1],
                 "voxel_offset": [0, 0, 0]},
                **({"sharding": {"@type": "neuroglancer_uint64_sharded_v1",
                                 "shard_bits": sb, "minishard_bits": 1,
                                 "preshift_bits": 0, "hash": "identity",
                                 "minishard_index_encoding": "raw",
                                 "data_encoding": "raw"}} if sharded else {})),
            st.lists(size, min_size=3, max_size=3),
            st.lists(st.lists(cs, min_size=3, max_size=3), min_size=1,
                     max_size=2),
            st.booleans(), st.integers(0, 12))
    scales = st.integers(1, 4).flatmap(
        lambda n: st.tuples(*[scale(i) for i in range(n)]).map(list))
    # (channel counts: the usual 1..4, and many-channel volumes)
    return st.builds(build, st.sampled_from(sorted(ITEMSIZE)),
                     st.one_of(st.integers(1, 4), st.integers(1, 4),
                               st.sampled_from([31, 32, 40, 64, 128, 255, 256,
                                                4096, 5000])), scales)


def numpy_sizes(info):
    """The same info with its volume sizes held as the narrowest
    NumPy integer type that fits them (an info assembled in code from image
    header fields rather than parsed from JSON) - chosen from the info
    itself, so that replay sees the same representation."""
    from vlib.jsonable import case_hash
    rep = case_hash(info) % 4
    if rep == 0:
        return info, "python_int"
    out = json.loads(json.dumps(info))
    for sc in out["scales"]:
        vals = list(sc["size"])
        types = ["int16", "int32", "int64"] if rep == 1 else \
            ["int32", "int64"] if rep == 2 else ["int64"]
        t = next(t for t in types if max(vals) <= np.iinfo(t).max)
        conv = np.dtype(t).type
        # (the sizes only: chunk sizes are echoed in the report, and NumPy
        # scalars inside a printed list are spelled "np.int16(64)")
        sc["size"] = [conv(v) for v in sc["size"]]
    # the channel count as well (e.g. dim[4] of an image header)
    ctypes_ = ["uint8", "int16", "int32", "int64"] if rep == 1 else \
        ["int16", "int32", "int64"] if rep == 2 else ["int64"]
    t = next(t for t in ctypes_ if out["num_channels"] <= np.iinfo(t).max)
    out["num_channels"] = np.dtype(t).type(out["num_channels"])
    return out, "numpy_sizes"


def check_stats(ctx, info):
    from neuroglancer_scripts.scripts import scale_stats
    buf = io.StringIO()
    given, rep = numpy_sizes(info)
    ctx.count("sizes_as." + rep)
    with contextlib.redirect_stdout(buf):
        scale_stats.show_scales_info(given)
    # the same info object is reported on a second time (a program that
    # prints the statistics before and after a conversion): same report
    buf2 = io.StringIO()
    with contextlib.redirect_stdout(buf2):
        scale_stats.show_scales_info(given)
    if buf2.getvalue() != buf.getvalue():
        ctx.fail("a second report on the same info object differs from the "
                 "first: %r vs %r" % (buf2.getvalue()[:200],
                                      buf.getvalue()[:200]))
    lines = buf.getvalue().splitlines()
    exp = []
    for sc in info["scales"]:
        for cs in sc["chunk_sizes"]:
            nchunks = 1
            for s, c in zip(sc["size"], cs):
                nchunks *= -(-s // c)
            nbytes = (sc["size"][0] * sc["size"][1] * sc["size"][2]
                      * ITEMSIZE[info["data_type"]] * info["num_channels"])
            exp.append((sc["key"], cs, nchunks, nbytes))
    if len(lines) != len(exp) + 2 or lines[-2] != "---":
        ctx.fail("unexpected report layout: %r" % lines)
    partial = False
    for line, (key, cs, nchunks, nbytes) in zip(lines, exp):
        m = _LINE.match(line)
        if not m:
            ctx.fail("unparseable report line %r" % line)
        if m.group("key") != key or [int(v) for v in
                                     m.group("cs").split(",")] != list(cs):
            ctx.fail("report line %r does not describe scale %s chunk size %s"
                     % (line, key, cs))
        got = int(m.group("chunks").replace(",", ""))
        if got != nchunks:
            ctx.fail("scale %s chunk size %s: reported %d chunks, the dataset "
                     "has %d" % (key, cs, got, nchunks))
        p = readable_problem(m.group("size"), nbytes)
        if p:
            ctx.fail("scale %s: size %s" % (key, p))
    m = _TOTAL.match(lines[-1])
    if not m:
        ctx.fail("unparseable total line %r" % lines[-1])
    tchunks = sum(e[2] for e in exp)
    tbytes = sum(e[3] for e in exp)
    if int(m.group("chunks").replace(",", "")) != tchunks:
        ctx.fail("total: reported %s chunks, expected %d" % (
            m.group("chunks"), tchunks))
    p = readable_problem(m.group("size"), tbytes)
    if p:
        ctx.fail("total size %s" % p)
    for sc in info["scales"]:
        for cs in sc["chunk_sizes"]:
            if any(s % c for s, c in zip(sc["size"], cs)):
                partial = True
    return partial


def run_stats(ctx, n):
    def check(ctx, info):
        partial = check_stats(ctx, info)
        ctx.record(info, len(info["scales"]) >= 2 and partial,
                   ["scales%d" % len(info["scales"]),
                    "sharded" if any("sharding" in s for s in info["scales"])
                    else "unsharded", info["data_type"]])
    ctx.run_hypothesis(info_strategy(), check, n)


def check_stats_case(ctx, info):
    check_stats(ctx, info)


# ---------------------------------------------------------------------------
# the report vs. a dataset that is actually produced
# ---------------------------------------------------------------------------
@st.composite
def produced_cases(draw):
    return {"size": [draw(st.integers(1, 40)) for _ in range(3)],
            "ratios": [draw(st.sampled_from([1, 1, 2, 4])) for _ in range(3)],
            "target": draw(st.sampled_from([2, 4, 8, 16])),
            "dtype": draw(st.sampled_from(sorted(ITEMSIZE))),
            "channels": draw(st.integers(1, 3)),
            "sharded": draw(st.integers(0, 3)) == 0,
            "seed": draw(st.integers(0, 2 ** 20))}


def check_produced(ctx, case):
    import os
    from neuroglancer_scripts import (downscaling, dyadic_pyramid,
                                      volume_reader)
    from neuroglancer_scripts.scripts import scale_stats
    from vlib import datasets as ds
    sharded = case["sharded"] and len(set(case["ratios"])) == 1
    info = ds.make_info(case["dtype"], case["channels"], [{
        "size": list(case["size"]),
        "resolution": [1000.0 * r for r in case["ratios"]],
        "voxel_offset": [0, 0, 0], "encoding": "raw"}])
    if sharded:
        info["scales"][0]["sharding"] = ds.sharding_dict(1, 1, 0)
    dyadic_pyramid.fill_scales_for_dyadic_pyramid(
        info, target_chunk_size=case["target"], max_scales=4)
    d = ctx.tmpdir("prod")
    try:
        pio = ds.new_dataset(info, {"type": "sharded", "strategy":
                                    "in memory"} if sharded else
                             {"type": "file", "flat": True, "gzip": False}, d)
        X, Y, Z = case["size"]
        C = case["channels"]
        vol = np.random.default_rng(case["seed"]).integers(
            0, 200, size=(X, Y, Z, C)).astype(case["dtype"])
        volume_reader.volume_to_precomputed(pio, vol)
        ds.close_accessor(pio)
        pio = ds.open_dataset(d, {"flat": True, "gzip": False})
        dyadic_pyramid.compute_dyadic_scales(
            pio, downscaling.get_downscaler("stride"))
        ds.close_accessor(pio)
        buf = io.StringIO()
        with contextlib.redirect_stdout(buf):
            scale_stats.show_scale_file_info(d)
        lines = buf.getvalue().splitlines()
        pio = ds.open_dataset(d)
        tot_chunks = tot_bytes = 0
        partial = False
        for line, sc in zip(lines, info["scales"]):
            m = _LINE.match(line)
            if not m or m.group("key") != sc["key"]:
                ctx.fail("unparseable report line %r" % line)
            reported = int(m.group("chunks").replace(",", ""))
            nbytes = 0
            nchunks = 0
            for cc in ds.chunk_coords_list(sc["size"], sc["chunk_sizes"][0]):
                arr = pio.read_chunk(sc["key"], cc)
                nbytes += arr.nbytes
                nchunks += 1
            if not sharded:
                files = [f for f in os.listdir(os.path.join(d, sc["key"]))]
                if len(files) != nchunks:
                    ctx.fail("scale %s: %d chunk files on disk, %d chunks on "
                             "the grid" % (sc["key"], len(files), nchunks))
            if reported != nchunks:
                ctx.fail("scale %s: the report says %d chunks, the conversion "
                         "wrote %d (size %s chunk %s)" % (
                             sc["key"], reported, nchunks, sc["size"],
                             sc["chunk_sizes"][0]))
            p = readable_problem(m.group("size"), nbytes)
            if p:
                ctx.fail("scale %s: reported size vs %d decoded bytes: %s" % (
                    sc["key"], nbytes, p))
            tot_chunks += nchunks
            tot_bytes += nbytes
            if any(s_ % c for s_, c in zip(sc["size"], sc["chunk_sizes"][0])):
                partial = True
        m = _TOTAL.match(lines[-1])
        if not m or int(m.group("chunks").replace(",", "")) != tot_chunks:
            ctx.fail("total chunks reported %r, written %d" % (lines[-1],
                                                              tot_chunks))
        p = readable_problem(m.group("size"), tot_bytes)
        if p:
            ctx.fail("total size vs %d decoded bytes: %s" % (tot_bytes, p))
        return len(info["scales"]), partial
    finally:
        ctx.rmtree(d)


def run_produced(ctx, n):
    def check(ctx, case):
        nscales, partial = check_produced(ctx, case)
        ctx.record(case, nscales >= 2 and partial,
                   ["scales%d" % nscales, case["dtype"],
                    "sharded" if case["sharded"] else "files"])
    ctx.run_hypothesis(produced_cases(), check, n)


def replay(ctx, case):
    if "count" in case:
        check_count(ctx, case)
    elif "ratios" in case:
        check_produced(ctx, case)
    else:
        check_stats(ctx, case)


SUBS = [
    Sub("fmt_sweep", run_sweep, check_count, quick=1, thorough=1, shards=14,
        sweep=True),
    Sub("fmt_hyp", run_hyp, check_count, quick=6000, thorough=600000),
    Sub("stats", run_stats, check_stats_case, quick=600, thorough=60000),
    Sub("produced", run_produced, check_produced, quick=80, thorough=6000,
        min_per_shard=5),
]
