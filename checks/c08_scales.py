"""C08 - generated scale metadata is consistent and usable by every later step."""
import copy
import json
import math
import os

import numpy as np
from hypothesis import strategies as st

from vlib.refs import pyramid_model
from vlib.runner import Sub

PROPERTY = "C08"
META = {
    "level": "exploration",
    "rule": ("sizes log-uniform 1..1e9 per axis (plus 2^k, 2^k+-1), positive "
             "resolutions 1e-2..1e13 nm with ratios 1..1e6 (including "
             "rounding-boundary ratios and three distinct voxel sizes), "
             "target chunk size 2^0..2^10, max_scales, dataset type/encoding/"
             "data type/channels; Hypothesis sub-check (shrinkable) and a "
             "seeded sweep; non-trivial = anisotropic or >= 3 levels; "
             "distinct by the full input tuple."
             ' Also: descriptions that carry their own encoding / block si'
             'ze, decimal voxel sizes (rounding ties of the key formatting'
             '), axis ratios up to 2^40.'
             " Round 16: descriptions that already carry several scales (the info of an existing dataset)."
             " Round 17: descriptions whose scale already carries chunk_sizes / key."
             " Round 18: an earlier generation whose result the caller edits in place."
             " Round 19: block sizes that are not powers of two."),
    "trusted_base": ["validity predicate formalising the docstring of "
                     "fill_scales_for_dyadic_pyramid", "vlib/refs/"
                     "pyramid_model.py (cross-validated in C06)"],
    "assumptions": ["core domain (must succeed): target >= 2 and max/min "
                    "resolution <= target chunk size; elsewhere an explicit "
                    "AssertionError/NotImplementedError is a rejection, only "
                    "an invalid info is a violation"],
}

EPS = 1e-9


def is_pow2(n):
    return isinstance(n, int) and n >= 1 and n & (n - 1) == 0


def core_domain(case):
    r = case["resolution"]
    return case["target"] >= 2 and max(r) / min(r) <= case["target"]


def build_fullres(case):
    info = {"data_type": case["data_type"],
            "num_channels": case["num_channels"],
            "scales": [{"size": list(case["size"]),
                        "resolution": list(case["resolution"]),
                        "voxel_offset": [0, 0, 0]}]}
    if case.get("info_type"):
        info["type"] = case["info_type"]
    # a description may already name its encoding / block size (the options of
    # generate-scales-info are optional overrides)
    if case.get("desc_encoding") and case.get("encoding"):
        info["scales"][0]["encoding"] = case["encoding"]
    if case.get("desc_block"):
        info["scales"][0]["compressed_segmentation_block_size"] = list(
            case["desc_block"])
    if case.get("desc_chunk_size"):
        # ... as the first scale of a complete info does (documented as
        # ignored: the generated chunk sizes follow --target-chunk-size)
        c = case["desc_chunk_size"]
        info["scales"][0]["chunk_sizes"] = [[c, c, c]]
        info["scales"][0]["key"] = "full"
    # the description may be the info of an existing dataset (documented
    # use: `generate-scales-info --encoding=jpeg 8bit/info jpeg/`): only its
    # first scale counts, the others (made with other parameters) are dropped
    size = list(case["size"])
    res = list(case["resolution"])
    for k in range(case.get("extra_scales", 0)):
        size = [max(1, -(-n // 2)) for n in size]
        res = [2 * r for r in res]
        info["scales"].append({
            "key": "old%d" % (k + 1), "size": list(size),
            "resolution": list(res), "voxel_offset": [0, 0, 0],
            "chunk_sizes": [[7, 7, 7]], "encoding": "raw"})
    return info


def cli_encoding(case):
    return None if case.get("desc_encoding") else case["encoding"]


def generate(ctx, case):
    from neuroglancer_scripts import dyadic_pyramid
    from neuroglancer_scripts.scripts import generate_scales_info as gsi
    info = build_fullres(case)
    # the process has generated the scales of another dataset before (same
    # parameters), and its caller has since edited that result in place
    # (clamped chunk sizes, renamed keys): nothing of it may show up here
    try:
        earlier = json.loads(json.dumps(build_fullres(case)))
        gsi.set_info_params(earlier, dataset_type=case["type"],
                            encoding=cli_encoding(case))
        dyadic_pyramid.fill_scales_for_dyadic_pyramid(
            earlier, target_chunk_size=case["target"],
            max_scales=case["max_scales"])
        for sc_ in earlier["scales"]:
            for cs in sc_.get("chunk_sizes", []):
                for k in range(len(cs)):
                    cs[k] = 1 if cs[k] != 1 else 3
            for name in ("size", "resolution", "voxel_offset"):
                for k in range(len(sc_.get(name, []))):
                    sc_[name][k] = 7
            sc_["key"] = "edited"
        earlier["scales"].append({"key": "extra"})
    except Exception:     # noqa - judged below, on the real generation
        pass
    if case["cli"]:
        d = ctx.tmpdir("gsi")
        try:
            src = os.path.join(d, "info_fullres.json")
            with open(src, "w") as f:
                json.dump(info, f)
            dest = os.path.join(d, "out")
            argv = ["generate-scales-info", src, dest,
                    "--target-chunk-size", str(case["target"])]
            if case["max_scales"] is not None:
                argv += ["--max-scales", str(case["max_scales"])]
            if case["type"]:
                argv += ["--type", case["type"]]
            if cli_encoding(case):
                argv += ["--encoding", cli_encoding(case)]
            rc = gsi.main(argv)
            if rc != 0:
                ctx.fail("generate-scales-info returned %r" % rc)
            with open(os.path.join(dest, "info")) as f:
                text = f.read()
            return json.loads(text)
        finally:
            ctx.rmtree(d)
    gsi.set_info_params(info, dataset_type=case["type"],
                        encoding=cli_encoding(case))
    # a second description derived from the same template by a shallow copy
    # (it shares the full-resolution scale dictionary)
    template_scale = info["scales"][0]
    other = dict(info, scales=[template_scale])
    dyadic_pyramid.fill_scales_for_dyadic_pyramid(
        info, target_chunk_size=case["target"], max_scales=case["max_scales"])
    snapshot = json.dumps(info, sort_keys=True)
    try:
        dyadic_pyramid.fill_scales_for_dyadic_pyramid(
            other, target_chunk_size=max(2, case["target"] // 2)
            if case["target"] > 2 else 4, max_scales=2)
    except (AssertionError, NotImplementedError):
        pass
    if json.dumps(info, sort_keys=True) != snapshot:
        ctx.fail("generating the scales of a second description (shallow "
                 "copy of the same template) changed the info generated "
                 "before: %s -> %s" % (snapshot[:200],
                                       json.dumps(info, sort_keys=True)[:200]))
    text = json.dumps(info)
    back = json.loads(text)
    if back != info:
        ctx.fail("info does not survive a JSON round trip")
    return back


def validate(ctx, case, info, known_ok=lambda fid, cond=True: False):
    from neuroglancer_scripts import chunk_encoding
    scales = info["scales"]
    size0, res0 = case["size"], case["resolution"]
    target = case["target"]
    if not scales:
        ctx.fail("no scales generated")
    keys = [s["key"] for s in scales]
    if len(set(keys)) != len(keys):
        ctx.fail("scale keys are not pairwise distinct: %s (resolution %s)"
                 % (keys, res0))
    factors = []
    for lvl, s in enumerate(scales):
        fs = []
        for a in range(3):
            f = s["resolution"][a] / res0[a]
            fi = int(round(f))
            if not is_pow2(fi) or res0[a] * fi != s["resolution"][a]:
                ctx.fail("level %d axis %d: resolution %r is not the full "
                         "resolution %r times a power of two" % (
                             lvl, a, s["resolution"][a], res0[a]))
            if s["size"][a] != -(-size0[a] // fi):
                ctx.fail("level %d axis %d: size %d, expected ceil(%d/%d)" % (
                    lvl, a, s["size"][a], size0[a], fi))
            fs.append(fi)
        factors.append(fs)
        if len(s["chunk_sizes"]) != 1 or len(s["chunk_sizes"][0]) != 3:
            ctx.fail("level %d: chunk_sizes %r" % (lvl, s["chunk_sizes"]))
        cs = s["chunk_sizes"][0]
        if not all(is_pow2(c) for c in cs):
            ctx.fail("level %d: chunk sizes %s are not powers of two" % (
                lvl, cs))
        tot = sum(int(math.log2(c)) for c in cs)
        if abs(tot - 3 * int(math.log2(target))) > 1:
            ctx.fail("level %d: chunk %s holds 2^%d voxels, target is 2^%d" % (
                lvl, cs, tot, 3 * int(math.log2(target))))
        if s.get("voxel_offset", [0, 0, 0]) != [0, 0, 0]:
            ctx.fail("level %d: voxel_offset changed" % lvl)
    if factors[0] != [1, 1, 1]:
        ctx.fail("first scale is not the full resolution: factors %s" %
                 factors[0])
    for lvl in range(1, len(scales)):
        for a in range(3):
            q = factors[lvl][a] / factors[lvl - 1][a]
            if q not in (1, 2):
                ctx.fail("levels %d->%d axis %d: factor ratio %s" % (
                    lvl - 1, lvl, a, q))
        if factors[lvl] == factors[lvl - 1]:
            ctx.fail("levels %d and %d are identical" % (lvl - 1, lvl))
    # last scale fits in two target-size chunks per axis unless cut
    cut = case["max_scales"] is not None and len(scales) >= max(
        1, case["max_scales"])
    if not cut:
        last = scales[-1]["size"]
        if any(sz > 2 * target for sz in last):
            if not known_ok("F18"):
                ctx.fail("last scale %s does not fit in two chunks of %d per "
                         "axis (sizes %s, resolution %s, %d scales)" % (
                             last, target, size0, res0, len(scales)))
    # isotropy
    rmin = min(res0)
    start = []
    for a in range(3):
        st_ = None
        for lvl in range(len(scales)):
            if factors[lvl][a] > 1:
                st_ = lvl
                break
        start.append(st_)
    nl = len(scales)
    for a in range(3):
        for b in range(3):
            if res0[a] < res0[b]:
                sa = start[a] if start[a] is not None else nl
                sb = start[b] if start[b] is not None else nl
                if sa > sb:
                    ctx.fail("axis %d (finer, %r nm) starts downscaling at "
                             "level %d, after the coarser axis %d (%r nm) at "
                             "level %d" % (a, res0[a], sa, b, res0[b], sb))
    for a in range(3):
        x = math.log2(res0[a] / rmin)
        lo, hi = math.floor(x), math.ceil(x)
        if x - lo < 0.5 - EPS:
            ok_delays = {lo}
        elif x - lo > 0.5 + EPS:
            ok_delays = {hi}
        else:
            ok_delays = {lo, hi}
        if start[a] is not None:
            if start[a] - 1 not in ok_delays:
                ctx.fail("axis %d (%r nm, finest %r nm) starts downscaling at "
                         "level %d; the documented rule gives level %s" % (
                             a, res0[a], rmin, start[a],
                             sorted(d + 1 for d in ok_delays)))
        elif not cut and min(ok_delays) + 1 < nl:
            ctx.fail("axis %d never starts downscaling within %d levels "
                     "although its delay is %s" % (a, nl, sorted(ok_delays)))
    ratio0 = max(res0) / rmin
    for lvl, s in enumerate(scales):
        r = max(s["resolution"]) / min(s["resolution"])
        if r > max(2.0, ratio0) * (1 + EPS):
            ctx.fail("level %d: anisotropy %.4g exceeds both 2 and the full-"
                     "resolution anisotropy %.4g" % (lvl, r, ratio0))
        if all(st_ is not None and st_ <= lvl for st_ in start) and \
                r > 2 * (1 + EPS):
            ctx.fail("level %d: all axes are being downscaled but the voxel "
                     "anisotropy is %.4g > 2" % (lvl, r))
    # encoders accept every scale
    for s in scales:
        try:
            chunk_encoding.get_encoder(info, s)
        except Exception as exc:
            ctx.fail("get_encoder rejects scale %s: %s %s" % (
                s["key"], type(exc).__name__, exc))
    # the pyramid computation accepts every consecutive pair
    for lvl in range(len(scales) - 1):
        out, per_axis = pyramid_model.transition_outcome(scales[lvl],
                                                         scales[lvl + 1])
        if out != "ok":
            if known_ok("F16"):
                continue
            ctx.fail("scales %d->%d are not compatible with the pyramid "
                     "computation (%s per axis): sizes %s->%s, chunks %s->%s "
                     "(input size %s resolution %s target %d)" % (
                         lvl, lvl + 1, per_axis, scales[lvl]["size"],
                         scales[lvl + 1]["size"],
                         scales[lvl]["chunk_sizes"][0],
                         scales[lvl + 1]["chunk_sizes"][0], size0, res0,
                         target))


def check_case(ctx, case):
    core = core_domain(case)
    try:
        info = generate(ctx, case)
    except (AssertionError, NotImplementedError) as exc:
        if isinstance(exc, AssertionError) and type(exc).__name__ == \
                "Violation":
            raise
        if core:
            ctx.fail("scale generation failed with %s %s inside the core "
                     "domain (size %s resolution %s target %d)" % (
                         type(exc).__name__, exc, case["size"],
                         case["resolution"], case["target"]))
        return "rejected"
    validate(ctx, case, info, known_ok=ctx.known)
    return info


# ---------------------------------------------------------------------------
# generators
# ---------------------------------------------------------------------------
RATIOS = [1, 1, 1.26, 1.41, 1.42, 1.5, 2, 2.82, 2.83, 3, 4, 5.6, 8, 16, 100,
          1e3, 1e6, 2.0 ** 20, 2.0 ** 35, 2.0 ** 36, 2.0 ** 40, 1e12]
BASES = [1.0, 0.8, 1e-2, 0.5, 3.3, 20.0, 1000.0, 1e6, 4e4, 1e9, 1e13 / 1e6]


@st.composite
def res_st(draw):
    kind = draw(st.sampled_from(["iso", "two", "three", "named", "free",
                                 "decimal"]))
    if kind == "decimal":
        # voxel sizes as people write them: two significant decimal digits of
        # one unit (0.8 / 1.6 / 2.5 mm ...): scale keys are formatted from
        # them, and x.5 values are exact rounding ties of that formatting
        unit = draw(st.sampled_from([1.0, 1e3, 1e6, 1e5, 1e2]))
        digits = st.one_of(st.integers(1, 99),
                           st.sampled_from([5, 15, 25, 35, 45, 16, 8, 12]))
        r = [draw(digits) * unit / 10 for _ in range(3)]
        if draw(st.booleans()):
            r[1] = r[0]
        draw(st.randoms(use_true_random=False)).shuffle(r)
        return r
    base = draw(st.one_of(st.sampled_from(BASES), st.floats(1e-2, 1e7)))
    if draw(st.booleans()):
        base = float(max(1, int(base)))
    if kind == "iso":
        r = [base] * 3
    elif kind == "named":
        r = list(draw(st.sampled_from([
            (0.8e6, 0.8e6, 1.2e6), (1.0, 4.0, 8.0), (1.0, 4.0, 16.0),
            (1.0, 2.0, 16.0), (1e6, 2e6, 2e6), (1.0, 1e6, 1e6),
            (20.0, 20.0, 50.0), (4.0, 4.0, 40.0), (1.0, 1.41, 2.83),
            (2.83, 1.26, 1.0), (10.0, 10.0, 25.0)])))
    else:
        ratios = [draw(st.one_of(st.sampled_from(RATIOS),
                                 st.floats(1, 64))) for _ in range(3)]
        if kind == "two":
            ratios[draw(st.integers(0, 2))] = 1
            ratios[1] = ratios[2] if draw(st.booleans()) else ratios[1]
        r = [base * q for q in ratios]
        if draw(st.booleans()):
            r = [float(max(1, round(v))) if v >= 1 else v for v in r]
    draw(st.randoms(use_true_random=False)).shuffle(r)
    if draw(st.booleans()):
        r = [int(v) if float(v).is_integer() and v < 2 ** 53 else v
             for v in r]
    return r


size_st = st.one_of(
    st.integers(1, 300),
    st.integers(0, 30).flatmap(lambda k: st.sampled_from(
        [2 ** k, max(1, 2 ** k - 1), 2 ** k + 1])).filter(
            lambda v: v <= 10 ** 9),
    st.floats(0, 9).map(lambda e: max(1, int(10 ** e))))


@st.composite
def cases(draw):
    enc = draw(st.sampled_from([None, None, "raw", "compressed_segmentation",
                                "jpeg"]))
    if enc == "jpeg":
        dt, nch = "uint8", draw(st.sampled_from([1, 3]))
    elif enc == "compressed_segmentation":
        dt, nch = draw(st.sampled_from(["uint8", "uint16", "uint32",
                                        "uint64"])), draw(st.integers(1, 2))
    else:
        dt = draw(st.sampled_from(["uint8", "uint16", "uint32", "uint64",
                                   "float32"]))
        nch = draw(st.integers(1, 3))
    return {"size": [draw(size_st) for _ in range(3)],
            "resolution": draw(res_st()),
            "target": 2 ** draw(st.one_of(st.integers(0, 10),
                                          st.sampled_from([5, 6, 7]))),
            "max_scales": draw(st.one_of(st.none(), st.none(),
                                         st.integers(1, 12))),
            "type": draw(st.sampled_from([None, None, "image",
                                          "segmentation"])),
            "info_type": draw(st.sampled_from([None, "image",
                                               "segmentation"])),
            "encoding": enc, "data_type": dt, "num_channels": nch,
            "desc_encoding": draw(st.integers(0, 3)) == 0,
            "desc_block": draw(st.sampled_from(
                [None, None, [8, 8, 8], [4, 4, 4], [16, 8, 2], [6, 6, 6],
                 [8, 8, 3], [5, 7, 1]]))
            if enc == "compressed_segmentation" else None,
            "extra_scales": draw(st.sampled_from([0, 0, 0, 1, 3, 9, 14])),
            "desc_chunk_size": draw(st.sampled_from([None, None, 256, 7, 1,
                                                     1024])),
            "cli": draw(st.integers(0, 9)) == 0}


def classes(case, info):
    r = case["resolution"]
    aniso = max(r) / min(r) > 1.0
    out = ["core" if core_domain(case) else "extended",
           "aniso" if aniso else "iso",
           "distinct_res%d" % len(set(r)),
           "cli" if case["cli"] else "api",
           "description_with_%s_scales" % (
               "several" if case.get("extra_scales") else "one")]
    if info == "rejected":
        out.append("rejected")
    else:
        out.append("levels%02d" % min(len(info["scales"]), 12))
    return out, aniso


def run(ctx, n):
    def check(ctx, case):
        info = check_case(ctx, case)
        cl, aniso = classes(case, info)
        ctx.record(case, info != "rejected" and (
            aniso or len(info["scales"]) >= 3), cl)
    ctx.run_hypothesis(cases(), check, n)


def run_sweep(ctx, n):
    """Seeded sweep (no shrinking; the failing case is written as is)."""
    rng = np.random.default_rng(ctx.hseed)
    done = 0
    for i in range(n):
        kind = rng.integers(0, 4)
        base = float(10 ** rng.uniform(-2, 7))
        if rng.integers(0, 2):
            base = float(max(1, int(base)))
        if kind == 0:
            res = [base] * 3
        else:
            q = [float(RATIOS[rng.integers(len(RATIOS))])
                 if rng.integers(0, 2) else float(2 ** rng.uniform(0, 6))
                 for _ in range(3)]
            if kind == 1:
                q[int(rng.integers(3))] = 1.0
            res = [base * v for v in q]
        case = {"size": [int(max(1, 10 ** rng.uniform(0, 9)))
                         if rng.integers(0, 3) else int(rng.integers(1, 300))
                         for _ in range(3)],
                "resolution": res,
                "target": int(2 ** rng.integers(0, 11)),
                "max_scales": None if rng.integers(0, 3) else int(
                    rng.integers(1, 13)),
                "type": None, "info_type": None, "encoding": None,
                "data_type": "uint8", "num_channels": 1, "cli": False}
        try:
            info = check_case(ctx, case)
        except AssertionError as exc:
            ctx.violations.append({"sub": "sweep", "case": case,
                                   "message": str(exc)})
            break
        cl, aniso = classes(case, info)
        ctx.record(case, info != "rejected" and (
            aniso or len(info["scales"]) >= 3), cl)
        done += 1


def replay(ctx, case):
    check_case(ctx, case)


SUBS = [
    Sub("generate", run, replay, quick=6000, thorough=600000),
    Sub("sweep", run_sweep, replay, quick=24000, thorough=3000000,
        min_per_shard=500),
]
