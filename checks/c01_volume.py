"""C01 - volume conversion preserves every voxel of the input image."""
import json
import os
from fractions import Fraction

import numpy as np
from hypothesis import strategies as st

from vlib import datasets as ds
from vlib import nifti
from vlib.refs import dtype_ref
from vlib.runner import Sub

PROPERTY = "C01"
JPEG_MAX, JPEG_MEAN = 24, 4.0
META = {
    "level": "exploration",
    "rule": ("Hypothesis draws a NIfTI volume (shape 1..12 per axis biased to "
             "chunk-1/chunk/chunk+1, 3-D / 4-D with 1..3 channels / RGB, "
             "stored dtype, .nii or .nii.gz, header scaling none / exact "
             "dyadic / arbitrary float32), conversion options "
             "(ignore-scaling, input-min/max, mmap), a target info (data "
             "type, chunk size per axis, encoding) and an accessor (deep/flat "
             "x gzip, or sharded); voxels are position-coded. non-trivial = "
             ">= 2 chunks on some axis or a partial border chunk, and >= 2 "
             "distinct voxel values; distinct by the whole case."
             ' Also: big-endian files, conversions requested through the c'
             'ommand-line entry point, rescaling windows ending at exactly'
             ' 0, independent index / data shard encodings; sub-check many'
             '_shards: thousands of one-voxel chunks over more than 1024 s'
             'hard files.'
             " Round 12: windows exactly as wide as the output range that start elsewhere (pure shifts), in-memory image objects, and the exhaustive sub-check option_grid (layout x stored type x output type x window class x header scaling / ignore x entry point, ~5000 tiny cases)."
             " Round 21: a file loaded by the caller with nibabel, whose values the caller has read (get_fdata) before handing the image object over."
             " Round 23: float volumes whose values lie one unit in the last place beside k + 0.5 (content near_tie; 64 cases of it in option_grid)."),
    "trusted_base": ["nibabel writes the input (stored array and header "
                     "scaling re-read and verified as a precondition)",
                     "vlib/refs/dtype_ref.py, Fraction arithmetic"],
    "assumptions": ["64-bit stored values stay within +-2^52 on paths that "
                    "go through float64 and results stay below 2^63 for "
                    "uint64 targets (F17 is C11's finding)",
                    "non-dyadic scalings are compared with a tolerance of "
                    "0.5 + 2^-48 x (magnitude of the terms) for integer "
                    "targets, one float32 ulp for float32 targets"],
}

STORED = ["uint8", "int8", "int16", "uint16", "int32", "uint32", "int64",
          "uint64", "float32", "float64"]
NG = ["uint8", "uint16", "uint32", "uint64", "float32"]
F32_MAX = float(np.finfo(np.float32).max)


@st.composite
def cases(draw):
    chunk = [draw(st.one_of(st.integers(1, 16), st.sampled_from([2, 4, 8])))
             for _ in range(3)]
    acc = draw(st.sampled_from(["deep_gz", "deep", "flat", "flat_gz",
                                "sharded", "sharded"]))
    if acc == "sharded":
        chunk = [chunk[0]] * 3

    def dim(c):
        return st.one_of(st.integers(1, 12), st.sampled_from(
            [1, max(1, c - 1), c, c + 1, 2 * c + 1]).filter(lambda v: v <= 14))
    shape = [draw(dim(c)) for c in chunk]
    layout = draw(st.sampled_from(["3d", "3d", "4d", "rgb"]))
    if layout == "4d":
        nch = draw(st.integers(1, 3))
    elif layout == "rgb":
        nch = 3
    else:
        nch = 1
    stored = "rgb" if layout == "rgb" else draw(st.sampled_from(STORED))
    out = draw(st.sampled_from(NG))
    encs = ["raw"]
    if out in ("uint32", "uint64"):
        encs.append("compressed_segmentation")
    if out == "uint8" and nch in (1, 3):
        encs.append("jpeg")
    enc = draw(st.sampled_from(encs))
    scaling = None
    skind = draw(st.sampled_from(["none", "none", "exact", "arbitrary"]))
    if layout != "rgb" and skind == "exact":
        scaling = [draw(st.sampled_from([0.5, 2.0, 0.25, 4.0, 1.0, 0.125])),
                   draw(st.sampled_from([0.0, -3.0, 100.5, 0.25, -128.0]))]
    elif layout != "rgb" and skind == "arbitrary":
        scaling = [draw(st.one_of(st.sampled_from([0.1, 3.7, 1e-3, 1.0 / 3]),
                                  st.floats(0.0078125, 100, width=32))),
                   draw(st.one_of(st.just(0.0), st.floats(-1000, 1000,
                                                          width=32)))]
    mm = None
    if draw(st.integers(0, 1)) == 0:
        kind = draw(st.sampled_from(["exact", "exact", "free", "nomin",
                                     "unit_shift"]))
        if kind == "unit_shift":
            # a window exactly as wide as the output range that does not start
            # at the output minimum: a pure shift (slope 1, intercept != 0),
            # preferably with the stored type equal to the output type
            if layout == "rgb":
                out = draw(st.sampled_from(["uint8", "uint8", out]))
                enc = "raw"
            elif out in STORED and draw(st.booleans()):
                stored = out
            span = {"uint8": 255, "uint16": 65535, "uint32": 2 ** 32 - 1,
                    "uint64": 2 ** 52, "float32": 1}[out]
            a = draw(st.sampled_from([16.0, -16.0, 1.0, 100.0, -3.0]))
            mm = [a, a + span]
        elif kind == "exact":
            span = {"uint8": 255, "uint16": 65535, "uint32": 2 ** 32 - 1,
                    "uint64": 2 ** 52, "float32": 1}[out]
            k = draw(st.sampled_from([1, 2, 0.5, 4]))
            imin = draw(st.sampled_from([0.0, -16.0, 8.0, None, None]))
            if imin is None:
                # a window that ends exactly at zero (e.g. CT: -1000..0)
                mm = [-float(span * k), 0.0]
            else:
                mm = [imin, imin + span * k]
        elif kind == "free":
            a = draw(st.floats(-1000, 1000))
            mm = [a, a + draw(st.floats(1, 10000))]
        else:
            mm = [None, draw(st.floats(1, 10000))]
    if enc == "jpeg":
        # the JPEG error bound is calibrated for smooth content: rescaling or
        # a header slope turns the smooth ramp into saturated steps
        mm = None
        scaling = None
    return {
        "shape": shape, "layout": layout, "channels": nch, "stored": stored,
        "gz": draw(st.booleans()), "scaling": scaling,
        "ignore_scaling": draw(st.booleans()), "minmax": mm,
        "mmap": draw(st.booleans()), "out": out, "chunk": chunk,
        "encoding": enc,
        "block": [draw(st.sampled_from([1, 2, 3, 8])) for _ in range(3)],
        "acc": acc, "bits": [draw(st.integers(0, 3)) for _ in range(3)],
        "shard_enc": draw(st.sampled_from(["raw", "gzip"])),
        "shard_enc_data": draw(st.sampled_from(["raw", "gzip"])),
        "content": draw(st.sampled_from(["position", "position", "limits",
                                         "near_tie"])),
        "seed": draw(st.integers(0, 2 ** 31)),
        "big_endian": draw(st.integers(0, 3)) == 0,
        "via": draw(st.sampled_from(["api", "cli", "api", "cli", "image",
                                     "loaded"])),
    }


def through_float(case):
    return (case["scaling"] is not None and not case["ignore_scaling"]) or \
        case["minmax"] is not None or case["out"] == "float32"


def make_raw(case):
    """Stored array in NIfTI index order (X,Y,Z[,C]) (or RGB structured)."""
    X, Y, Z = case["shape"]
    C = case["channels"]
    rng = np.random.default_rng(case["seed"])
    if case["layout"] == "rgb":
        code = ds.position_code((3, Z, Y, X), "uint8", case["seed"] % 251)
        raw = np.zeros((X, Y, Z), dtype=nifti.RGB_DTYPE, order="F")
        for i, ch in enumerate("RGB"):
            raw[ch] = code[i].transpose(2, 1, 0)
        return raw
    dt = np.dtype(case["stored"])
    if case["encoding"] == "jpeg":
        z, y, x = np.meshgrid(np.arange(Z), np.arange(Y), np.arange(X),
                              indexing="ij")
        base = x + 3 * y + 6 * z + case["seed"] % 40
        code = np.stack([np.clip(base + 64 * c, 0, 120) for c in range(C)])
        code = code.astype(dt)
    elif dt.kind == "f":
        code = ds.position_code((C, Z, Y, X), "uint32", case["seed"] % 1000
                                ).astype(np.float64)
        if case["content"] == "limits":
            code = code * 0.37 - 11.5
        code = code.astype(dt)
        if case["content"] == "near_tie":
            # one unit in the last place (of the stored type) beside k + 0.5
            code = (code % 60000 + dt.type(0.5)).astype(dt)
            up = (np.arange(code.size).reshape(code.shape) % 2).astype(bool)
            code = np.where(up, np.nextafter(code, dt.type(np.inf)),
                            np.nextafter(code, dt.type(-np.inf))).astype(dt)
    else:
        ii = np.iinfo(dt)
        lo, hi = int(ii.min), int(ii.max)
        if dt.itemsize == 8 and through_float(case):
            lo, hi = max(lo, -2 ** 52), min(hi, 2 ** 52)
        if dt.itemsize == 8 and case["out"] == "uint64":
            hi = min(hi, 2 ** 62)
        span = hi - lo + 1
        pc = ds.position_code((C, Z, Y, X), "uint64", case["seed"] % 1000)
        if case["content"] == "limits":
            vals = [lo, hi, lo + 1, hi - 1, 0, 1, min(hi, 255), min(hi, 256)]
            pick = rng.integers(0, len(vals), size=pc.shape)
            code = np.array(vals, dtype=object)[pick]
            code = np.array(code.tolist(), dtype=dt).reshape(pc.shape)
        else:
            code = ((pc % min(span, 2 ** 40)).astype(object) + lo)
            code = np.array(code.tolist(), dtype=dt).reshape(pc.shape)
    # (C,Z,Y,X) -> (X,Y,Z,C)
    raw = np.asfortranarray(code.transpose(3, 2, 1, 0))
    if case["layout"] == "3d":
        raw = np.asfortranarray(raw[..., 0])
    return raw


def expected_sets(case, raw):
    """Per-voxel acceptable values, as an object array (C,Z,Y,X) of
    (lo, hi) closed bounds (ints) or (value, tol) for float32."""
    out = case["out"]
    if case["layout"] == "rgb":
        vals = np.stack([raw[c] for c in "RGB"], axis=-1)
    elif case["layout"] == "3d":
        vals = raw[..., np.newaxis]
    else:
        vals = raw
    vals = vals.transpose(3, 2, 1, 0)       # (C,Z,Y,X)
    use_scaling = case["scaling"] is not None and not case["ignore_scaling"]
    slope = Fraction(float(np.float32(case["scaling"][0]))) if use_scaling \
        else Fraction(1)
    inter = Fraction(float(np.float32(case["scaling"][1]))) if use_scaling \
        else Fraction(0)
    mm = case["minmax"]
    if out == "float32":
        omin, omax = Fraction(0), Fraction(1)
    else:
        omin, omax = (Fraction(v) for v in dtype_ref.INT_RANGE[out])
    exact_class = True
    if use_scaling and case["scaling"][0] not in (0.5, 2.0, 0.25, 4.0, 1.0,
                                                  0.125):
        exact_class = False
    if mm is not None:
        imin = Fraction(mm[0]) if mm[0] is not None else Fraction(0)
        imax = Fraction(mm[1])
        ps = (omax - omin) / (imax - imin)
        if ps.denominator & (ps.denominator - 1) or \
                ps.numerator & (ps.numerator - 1):
            exact_class = False
        if np.dtype(case["stored"]).kind == "f" if case["stored"] != "rgb" \
                else False:
            exact_class = exact_class and True
    if case.get("content") == "near_tie" and (use_scaling or mm is not None):
        # values with a full mantissa: the header scaling / rescaling is
        # floating-point arithmetic on them and has to round (0.5 - 2^-53
        # times 2 plus 100.5 is 101.5 in float64), whatever the factors
        exact_class = False
    # an image object holding a float32 array (never a file) is rescaled in
    # the array's own precision: the statement is about volume files, so only
    # float32 accuracy is demanded there
    f32_arith = (case.get("via") == "image" and case["layout"] != "rgb" and
                 case["stored"] == "float32" and mm is not None)
    if f32_arith:
        exact_class = False
    flat = vals.reshape(-1).tolist()
    res = np.empty(len(flat), dtype=object)
    for i, r in enumerate(flat):
        v = Fraction(r)
        mag = abs(v * slope) + abs(inter)
        v = v * slope + inter
        if mm is not None:
            mag = (mag + abs(imin)) * abs(ps) + abs(omin)
            v = omin + (v - imin) * ps
        mag = mag + abs(v)
        if f32_arith:
            tol = mag / 2 ** 21
        elif exact_class and mag < 2 ** 53:
            tol = Fraction(0)
        elif exact_class:
            tol = mag / 2 ** 50      # beyond 2^53 float64 must round
        else:
            tol = mag / 2 ** 48
        if out == "float32":
            res[i] = ("f", v, tol)
        else:
            lo = dtype_ref.to_int_type(v - tol, out)
            hi = dtype_ref.to_int_type(v + tol, out)
            res[i] = ("i", lo, hi)
    return res.reshape(vals.shape), exact_class


def build_info(case):
    X, Y, Z = case["shape"]
    sharding = ds.sharding_dict(case["bits"][0], case["bits"][1],
                                case["bits"][2], case["shard_enc"],
                                case.get("shard_enc_data",
                                         case["shard_enc"])) \
        if case["acc"] == "sharded" else None
    sc = ds.make_scale("1mm", [X, Y, Z], case["chunk"], case["encoding"],
                       resolution=[1e6, 1e6, 1e6], block=case["block"],
                       sharding=sharding)
    return ds.make_info(case["out"], case["channels"], [sc])


def check_case(ctx, case):
    from neuroglancer_scripts import volume_reader
    d = ctx.tmpdir("vol")
    try:
        if case["encoding"] == "jpeg" and (case["minmax"] or
                                           case["scaling"]):
            # outside the calibrated domain of the JPEG error bound (smooth
            # content): no verdict
            ctx.count("excluded_jpeg_rescaled")
            return None
        in_memory = case.get("via") == "image" and case["layout"] != "rgb"
        if case.get("via") == "loaded" and case["layout"] == "rgb":
            # (the channels of RGB files are split by the file-level call)
            case = dict(case, via="api")
        if in_memory:
            # an image object that was never a file: no header scaling
            case = dict(case, scaling=None)
        raw = make_raw(case)
        path = os.path.join(d, "in.nii" + (".gz" if case["gz"] else ""))
        slope, inter = case["scaling"] or (None, None)
        nifti.write_nifti(path, raw, np.diag([1.0, 1.0, 1.0, 1.0]), slope,
                          inter, big_endian=case.get("big_endian", False))
        _, ok = nifti.load_checked(path, raw, slope, inter)
        if not ok:
            ctx.count("precondition_failed")
            return None
        exp, exact_class = expected_sets(case, raw)
        if case["out"] == "uint64":
            for e in exp.reshape(-1):
                if e[0] == "i" and e[2] >= 2 ** 63:
                    ctx.count("excluded_F17_domain")
                    return None
        if case["out"] == "float32":
            for e in exp.reshape(-1):
                if abs(e[1]) > F32_MAX:
                    ctx.count("excluded_beyond_float32")
                    return None
        dest = os.path.join(d, "out")
        os.makedirs(dest)
        info = build_info(case)
        with open(os.path.join(dest, "info"), "w") as f:
            json.dump(info, f)
        options = {"flat": case["acc"].startswith("flat"),
                   "gzip": case["acc"].endswith("_gz"), "compresslevel": 1}
        mm = case["minmax"]
        try:
            with ds.captured_atexit(), np.errstate(all="ignore"):
                if in_memory:
                    import nibabel
                    from neuroglancer_scripts import accessor, precomputed_io
                    img = nibabel.Nifti1Image(
                        raw, np.diag([1.0, 1.0, 1.0, 1.0]), dtype=raw.dtype)
                    writer = precomputed_io.get_IO_for_existing_dataset(
                        accessor.get_accessor_for_url(dest, options))
                    rc = volume_reader.nibabel_image_to_precomputed(
                        img, writer, case["ignore_scaling"],
                        None if mm is None else mm[0],
                        None if mm is None else mm[1],
                        not case["mmap"], options)
                elif case.get("via") == "loaded":
                    # the caller loads the file with nibabel, looks at the
                    # values through nibabel's own interface (which keeps
                    # them in the image's cache) - e.g. to choose the
                    # intensity window - and hands the image object over
                    import nibabel
                    from neuroglancer_scripts import accessor, precomputed_io
                    img = nibabel.load(path)
                    if case["seed"] % 4 != 3:
                        img.get_fdata()
                        ctx.count("image_values_read_by_caller_first")
                    writer = precomputed_io.get_IO_for_existing_dataset(
                        accessor.get_accessor_for_url(dest, options))
                    rc = volume_reader.nibabel_image_to_precomputed(
                        img, writer, case["ignore_scaling"],
                        None if mm is None else mm[0],
                        None if mm is None else mm[1],
                        not case["mmap"], options)
                elif case.get("via") == "cli" and not (
                        mm is not None and mm[0] is None):
                    # the same conversion asked for on the command line
                    from neuroglancer_scripts.scripts import \
                        volume_to_precomputed as v2p
                    argv = ["volume-to-precomputed", path, dest,
                            "--compresslevel", "1"]
                    if case["ignore_scaling"]:
                        argv.append("--ignore-scaling")
                    if mm is not None:
                        argv += ["--input-min=%r" % mm[0],
                                 "--input-max=%r" % mm[1]]
                    if case["mmap"]:
                        argv.append("--mmap")
                    if options["flat"]:
                        argv.append("--flat")
                    if not options["gzip"]:
                        argv.append("--no-gzip")
                    rc = v2p.main(argv)
                elif case.get("via") == "cli":
                    from neuroglancer_scripts.scripts import \
                        volume_to_precomputed as v2p
                    argv = ["volume-to-precomputed", path, dest,
                            "--compresslevel", "1", "--input-max=%r" % mm[1]]
                    argv += ["--ignore-scaling"] * case["ignore_scaling"]
                    argv += ["--mmap"] * case["mmap"]
                    argv += ["--flat"] * options["flat"]
                    argv += ["--no-gzip"] * (not options["gzip"])
                    rc = v2p.main(argv)
                else:
                    rc = volume_reader.volume_file_to_precomputed(
                        path, dest, ignore_scaling=case["ignore_scaling"],
                        input_min=None if mm is None else mm[0],
                        input_max=None if mm is None else mm[1],
                        load_full_volume=not case["mmap"], options=options)
        except SystemExit as exc:
            ctx.fail("volume-to-precomputed exited with %r (%s)" % (
                exc.code, describe(case)))
        except Exception as exc:
            from vlib.runner import _from_repo
            if not _from_repo(exc):
                raise
            ctx.fail("conversion failed with %s: %s (%s)" % (
                type(exc).__name__, exc, describe(case)))
        if rc:
            ctx.fail("conversion returned %r (%s)" % (rc, describe(case)))
        pio = ds.open_dataset(dest)
        try:
            got = ds.read_scale(pio, info["scales"][0], case["out"],
                                case["channels"])
        except Exception as exc:
            ctx.fail("reading the converted scale back failed: %s %s (%s)" % (
                type(exc).__name__, exc, describe(case)))
        if got.shape != exp.shape:
            ctx.fail("converted volume has shape %s, expected %s" % (
                got.shape, exp.shape))
        gl = got.reshape(-1).tolist()
        el = exp.reshape(-1)
        if case["encoding"] == "jpeg":
            mid = np.array([(e[1] + e[2]) / 2 for e in el], dtype=float)
            dd = np.abs(np.array(gl, dtype=float) - mid)
            if dd.max() > JPEG_MAX or dd.mean() > JPEG_MEAN:
                ctx.fail("JPEG volume differs by max %.0f mean %.2f (%s)" % (
                    dd.max(), dd.mean(), describe(case)))
        else:
            for idx, (g, e) in enumerate(zip(gl, el)):
                if e[0] == "i":
                    ok_ = e[1] <= g <= e[2]
                else:
                    ulp = float(np.spacing(np.float32(min(abs(float(e[1])),
                                                          F32_MAX))))
                    ok_ = abs(Fraction(g) - e[1]) <= Fraction(ulp) + e[2]
                if not ok_:
                    pos = np.unravel_index(idx, exp.shape)
                    ctx.fail("voxel (c,z,y,x)=%s reads %r, expected %s (%s)"
                             % ([int(p) for p in pos], g,
                                ("[%d..%d]" % (e[1], e[2])) if e[0] == "i"
                                else "%r +- %g" % (float(e[1]), float(e[2])),
                                describe(case)))
        nchunks = [ds.ceil_div(s, c) for s, c in zip(case["shape"],
                                                     case["chunk"])]
        partial = any(s % c for s, c in zip(case["shape"], case["chunk"]))
        distinct = len(set(gl)) >= 2
        return (max(nchunks) >= 2 or partial) and distinct
    finally:
        ctx.rmtree(d)


def describe(case):
    return ("shape %s %s x%d stored %s%s scaling %s ignore=%s minmax %s mmap=%s"
            " -> %s chunk %s %s acc %s" % (
                case["shape"], case["layout"], case["channels"],
                case["stored"], ".gz" if case["gz"] else "", case["scaling"],
                case["ignore_scaling"], case["minmax"], case["mmap"],
                case["out"], case["chunk"], case["encoding"], case["acc"]))


def window_class(case):
    mm = case["minmax"]
    if mm is None:
        return "none"
    if mm[0] is None:
        return "max_only"
    span = {"uint8": 255, "uint16": 65535, "uint32": 2 ** 32 - 1,
            "uint64": 2 ** 52, "float32": 1}[case["out"]]
    if mm[1] - mm[0] != span:
        return "rescaling"
    if mm[0] == 0:
        return "identity"
    in_array = case["layout"] == "rgb" or case.get("via") == "image"
    stored = "uint8" if case["layout"] == "rgb" else case["stored"]
    if in_array and stored == case["out"]:
        return "pure_shift_of_array_of_output_type"
    return "pure_shift"


def run(ctx, n):
    def check(ctx, case):
        nt = check_case(ctx, case)
        if nt is None:
            return
        sk = ("none" if case["scaling"] is None else "scaled")
        ctx.record(case, nt, [
            case["layout"], "stored." + case["stored"], "out." + case["out"],
            "enc." + case["encoding"], "acc." + case["acc"],
            "mmap" if case["mmap"] else "full", "scaling." + sk,
            "minmax" if case["minmax"] else "nominmax",
            "ignore" if case["ignore_scaling"] else "apply",
            "via." + case.get("via", "api"),
            "window." + window_class(case),
            "big_endian_file" if case.get("big_endian") and
            case["layout"] != "rgb" else "little_endian_file"])
    ctx.run_hypothesis(cases(), check, n)


def grid_cases():
    """The complete product of the discrete options at one tiny shape: every
    conjunction of (channel layout, stored type, output type, window class,
    header scaling / --ignore-scaling, entry point) occurs, which random
    draws of 700 cases do not guarantee for four-way conjunctions."""
    out_span = {"uint8": 255, "uint16": 65535, "uint32": 2 ** 32 - 1,
                "uint64": 2 ** 52, "float32": 1}
    cases_ = []
    k = 0
    for out in NG:
        span = out_span[out]
        windows = [None, [0.0, float(span)], [16.0, 16.0 + span],
                   [-16.0, float(span) - 16.0], [0.0, span / 2.0],
                   [None, 200.0], [-float(span), 0.0]]
        for layout in ("3d", "4d", "rgb"):
            if layout == "rgb":
                storeds = ["rgb"]
            else:
                storeds = list(dict.fromkeys(
                    [out if out in STORED else "float32", "int16",
                     "float32", "uint8"]))
            for stored in storeds:
                for mm in windows:
                    for scal, ign in ((None, False), ([2.0, -3.0], False),
                                      ([2.0, -3.0], True), (None, True),
                                      ([1.0, 100.0], True),
                                      ([1.0, 100.0], False),
                                      ([0.5, 0.0], True)):
                        if layout == "rgb" and scal is not None:
                            continue
                        for via in ("api", "cli", "image", "loaded"):
                            if layout == "rgb" and via in ("image",
                                                           "loaded"):
                                continue
                            k += 1
                            acc = ("deep_gz", "flat", "sharded", "deep",
                                   "flat_gz")[k % 5]
                            cases_.append({
                                "shape": [3, 2, 2], "layout": layout,
                                "channels": {"3d": 1, "4d": 2,
                                             "rgb": 3}[layout],
                                "stored": stored, "gz": k % 3 == 0,
                                "scaling": scal, "ignore_scaling": ign,
                                "minmax": mm, "mmap": k % 2 == 1, "out": out,
                                "chunk": [2, 2, 2], "encoding": "raw",
                                "block": [8, 8, 8], "acc": acc,
                                "bits": [1, 1, 1], "shard_enc": "raw",
                                "shard_enc_data": "gzip",
                                "content": "position", "seed": k,
                                "big_endian": k % 7 == 0, "via": via})
    # float volumes whose values lie one unit in the last place beside a
    # tie, converted to every integer type through every entry point
    for out in ("uint8", "uint16", "uint32", "uint64"):
        for stored in ("float32", "float64"):
            for via in ("api", "cli", "image", "loaded"):
                for mmap in (False, True):
                    k += 1
                    cases_.append({
                        "shape": [3, 2, 2], "layout": "3d", "channels": 1,
                        "stored": stored, "gz": False, "scaling": None,
                        "ignore_scaling": False, "minmax": None,
                        "mmap": mmap, "out": out, "chunk": [2, 2, 2],
                        "encoding": "raw", "block": [8, 8, 8],
                        "acc": "deep_gz", "bits": [1, 1, 1],
                        "shard_enc": "raw", "shard_enc_data": "gzip",
                        "content": "near_tie", "seed": k,
                        "big_endian": False, "via": via})
    return cases_


def run_grid(ctx, n):
    def check(ctx, case):
        nt = check_case(ctx, case)
        if nt is None:
            return
        ctx.record(case, nt, [case["layout"], "out." + case["out"],
                              "window." + window_class(case),
                              "via." + case["via"]])
    ctx.run_grid(grid_cases(), check)


def run_many(ctx, n):
    """Volumes of thousands of tiny chunks spread over more than a thousand
    shard files (every shard receives chunks from several z-slabs, far apart
    in write order), and volumes of more than 65536 chunks."""
    shapes = [([2050, 1, 2], [0, 11, 2], 1), ([33, 20, 17], [0, 0, 0], 16),
              ([41, 41, 41], [1, 12, 0], 1), ([1300, 2, 3], [0, 11, 1], 1),
              ([70, 33, 9], [1, 1, 0], 32)]
    # (chunk size 16 / 32: minishards of tens of KiB, beyond every read and
    # copy block size of the writer)
    for k, (shape, bits, cs) in enumerate(shapes[:max(2, n + 1)]):
        case = {"shape": shape, "layout": "3d", "channels": 1,
                "stored": "uint8" if cs == 1 else "uint16", "gz": False,
                "scaling": None,
                "ignore_scaling": False, "minmax": None, "mmap": False,
                "out": "uint8" if cs == 1 else "uint16",
                "chunk": [cs, cs, cs], "encoding": "raw",
                "block": [8, 8, 8], "acc": "sharded", "bits": bits,
                "shard_enc": "raw", "shard_enc_data": "raw",
                "content": "position", "seed": ctx.seed + k,
                "big_endian": False, "via": "api"}
        try:
            check_case(ctx, case)
        except AssertionError as exc:
            if type(exc).__name__ != "Violation":
                raise
            ctx.violations.append({"sub": "many_shards", "case": case,
                                   "message": str(exc)})
            return
        ctx.record(case, True, ["shards>1024" if cs == 1 else
                                "minishard>4KiB"])


def replay(ctx, case):
    check_case(ctx, case)


SUBS = [Sub("convert", run, replay, quick=700, thorough=100000,
            min_per_shard=10),
        Sub("option_grid", run_grid, replay, quick=1, thorough=1, shards=14,
            sweep=True),
        Sub("many_shards", run_many, replay, quick=1, thorough=3, shards=1)]
