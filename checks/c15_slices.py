"""C15 - slice stacks are assembled with the requested anatomical
orientation."""
import json
import os

import numpy as np
from hypothesis import strategies as st

from vlib import datasets as ds
from vlib.refs import orient_ref
from vlib.runner import Sub

PROPERTY = "C15"
CODES = orient_ref.all_codes()
META = {
    "level": "exploration",
    "rule": ("every one of the 48 orientation codes is run with Hypothesis-"
             "drawn sizes (columns, rows, slices 1..7), chunk sizes 1..4, "
             "channel layouts (one directory of grey PNGs, RGB PNGs, 2-3 "
             "directories), pixel type uint8/uint16, target data type and "
             "storage options; pixels are position-coded. non-trivial = the "
             "last slice group is partial or there are >= 2 slice groups; "
             "distinct by the whole case."
             ' Also: compressed_segmentation scales, per-directory and per'
             '-file pixel depths, file naming variants (unpadded numbers, '
             'upper-case extensions, TIFF, words) with the lexicographic-o'
             'rder oracle, symbolic links, directory names whose given ord'
             'er is not sorted, default options requested by omitting the '
             'argument.'
             " Round 12: slices_to_raw_chunks with explicit lists, two conversions from the same list objects."
             " Round 18: one directory named for two channels."
             " Round 21: the output deleted and the stack converted again into the same path by the same process."),
    "exhaustive_parts": ["all 48 orientation codes (each with its own "
                         "Hypothesis run)"],
    "trusted_base": ["vlib/refs/orient_ref.py (from the letters only)",
                     "Pillow as PNG writer"],
}

TARGETS = {"uint8": ["uint8", "uint16", "uint32", "uint64", "float32"],
           "uint16": ["uint16", "uint32", "uint64", "float32"]}


def cases(code):
    @st.composite
    def strat(draw):
        layout = draw(st.sampled_from(["grey", "grey", "rgb", "dirs2",
                                       "dirs3"]))
        pix = "uint8" if layout == "rgb" else draw(
            st.sampled_from(["uint8", "uint16"]))
        # channels from several directories may have different pixel types
        pixs = None
        if layout in ("dirs2", "dirs3") and draw(st.booleans()):
            pixs = [draw(st.sampled_from(["uint8", "uint16"]))
                    for _ in range(int(layout[-1]))]
            pix = "uint16" if "uint16" in pixs else "uint8"
        out = draw(st.sampled_from(TARGETS[pix]))
        block = None
        if out in ("uint32", "uint64") and draw(st.booleans()):
            # label slices stored with the compressed_segmentation encoding
            block = draw(st.sampled_from([[8, 8, 8], [2, 2, 2], [1, 2, 3],
                                          [2, 1, 2]]))
        return {
            "code": code,
            "n": [draw(st.integers(1, 7)) for _ in range(3)],
            "chunk": [draw(st.integers(1, 4)) for _ in range(3)],
            "layout": layout, "pix": pix, "pixs": pixs,
            "out": out, "block": block,
            "acc": draw(st.sampled_from(["deep_gz", "flat", "deep",
                                         "flat_gz"])),
            "cli": draw(st.booleans()),
            # file naming: the documented slice order is the lexicographic
            # order of the names, whatever they look like
            "naming": draw(st.sampled_from(["padded", "padded", "unpadded",
                                            "upper_ext", "tif", "words"])),
            # the directory holds symbolic links to files kept elsewhere
            # under unrelated names
            "symlinks": draw(st.integers(0, 4)) == 0,
            # files of one directory differ in pixel depth (8-bit files for
            # slices whose values happen to fit)
            "mixed_files": draw(st.integers(0, 2)) == 0,
            "seed": draw(st.integers(0, 1000))}
    return strat()


WORDS = ["Zeta", "alpha", "Beta", "gamma", "10", "9", "_x", "a b", "a.b",
         "B", "ab", "a", "z", "M", "m", "0", "00", "-1"]


def slice_names(naming, nsl):
    """File names of the slices in stack order (first slice first): the
    lexicographically sorted list of the generated names."""
    if naming == "unpadded":
        names = ["%d.png" % (s + 1) for s in range(nsl)]
    elif naming == "upper_ext":
        names = ["S%03d.PNG" % s for s in range(nsl)]
    elif naming == "tif":
        names = ["img_%d.tif" % (7 * s) for s in range(nsl)]
    elif naming == "words":
        names = [WORDS[s % len(WORDS)] + ("" if s < len(WORDS) else str(s))
                 + ".png" for s in range(nsl)]
    else:
        names = ["s%03d.png" % s for s in range(nsl)]
    return sorted(names)


def stack_value(c, s, r, q, seed, pix):
    v = q + 11 * r + 11 * 13 * s + 11 * 13 * 17 * c + seed
    return v % (256 if pix == "uint8" else 65536)


def check_case(ctx, case):
    import PIL.Image
    from neuroglancer_scripts.scripts import slices_to_precomputed as s2p
    code = case["code"]
    ncol, nrow, nsl = case["n"]
    nch = {"grey": 1, "rgb": 3, "dirs2": 2, "dirs3": 3}[case["layout"]]
    pix = case["pix"]
    d = ctx.tmpdir("slices")
    try:
        pixs = case.get("pixs") or [pix] * nch
        stack = np.zeros((nch, nsl, nrow, ncol), dtype=pix)
        for c in range(nch):
            for s in range(nsl):
                for r in range(nrow):
                    for q in range(ncol):
                        stack[c, s, r, q] = stack_value(c, s, r, q,
                                                        case["seed"], pixs[c])
                        if case.get("mixed_files") and \
                                (s + case["seed"]) % 2 == 0:
                            # every other slice is dim (fits 8 bits)
                            stack[c, s, r, q] %= 200
        dirs = []
        names = slice_names(case.get("naming", "padded"), nsl)

        def place(directory, name, s):
            """Path to save slice s to, so that directory/name designates
            it (directly, or through a symbolic link)."""
            if not case.get("symlinks"):
                return os.path.join(directory, name)
            store = os.path.join(d, "acquired", os.path.basename(directory))
            os.makedirs(store, exist_ok=True)
            ext = os.path.splitext(name)[1]
            target = os.path.join(store, "scan_%03d%s" % (nsl - s, ext))
            os.symlink(target, os.path.join(directory, name))
            return target
        if case["layout"] == "rgb":
            p = os.path.join(d, "in0")
            os.makedirs(p)
            dirs.append(p)
            for s in range(nsl):
                PIL.Image.fromarray(np.moveaxis(stack[:, s], 0, -1), "RGB"
                                    ).save(place(p, names[s], s))
        else:
            # directory names whose order on the command line is not their
            # lexicographic order (channels follow the order given)
            dnames = ["red", "green", "blue"] if case["seed"] % 2 else \
                ["ch2", "ch10", "ch1"]
            # the same directory may be named for two channels (an image
            # shown in two colours): that channel repeats the first one
            repeat_first = nch >= 2 and case["seed"] % 5 == 0
            if repeat_first:
                stack[nch - 1] = stack[0]
            for c in range(nch):
                if repeat_first and c == nch - 1:
                    dirs.append(dirs[0])
                    break
                p = os.path.join(d, dnames[c])
                os.makedirs(p)
                dirs.append(p)
                for s in range(nsl):
                    ftype = pixs[c]
                    if case.get("mixed_files") and stack[c, s].max() < 256 \
                            and (s + case["seed"]) % 2 == 0:
                        # a dim slice stored as 8-bit next to 16-bit ones
                        ftype = "uint8"
                    PIL.Image.fromarray(stack[c, s].astype(ftype)).save(
                        place(p, names[s], s))
        size = orient_ref.output_size(code, ncol, nrow, nsl)
        block = case.get("block")
        scale = ds.make_scale("1um", size, case["chunk"],
                              "compressed_segmentation" if block else "raw")
        if block:
            scale["compressed_segmentation_block_size"] = list(block)
        info = ds.make_info(case["out"], nch, [scale],
                            "segmentation" if block else "image")
        from pathlib import Path
        use_lists = not case["cli"] and case["seed"] % 3 == 0
        file_lists = [sorted(Path(p).iterdir()) for p in dirs]
        lists_before = [list(fl) for fl in file_lists]
        # (with explicit lists the same list objects serve two conversions)
        # (without them, a quarter of the stacks is converted, the output
        # deleted, and converted again into the same place by this process)
        for dest_name in (("out", "out_again") if use_lists else
                          ("out", "out") if case["seed"] % 4 == 1
                          else ("out",)):
            dest = os.path.join(d, dest_name)
            if os.path.isdir(dest):
                ctx.rmtree(dest)
                ctx.count("converted_again_after_deleting_the_output")
            os.makedirs(dest)
            with open(os.path.join(dest, "info"), "w") as f:
                json.dump(info, f)
            flat = case["acc"].startswith("flat")
            gz = case["acc"].endswith("_gz")
            from pathlib import Path
            try:
                with ds.captured_atexit():
                    if case["cli"]:
                        argv = ["slices-to-precomputed"] + dirs + [
                            dest, "--input-orientation", code.lower()
                            if case["seed"] % 2 else code]
                        if flat:
                            argv.append("--flat")
                        if not gz:
                            argv.append("--no-gzip")
                        rc = s2p.main(argv)
                        if rc:
                            ctx.fail("slices-to-precomputed returned %r" % rc)
                    elif use_lists:
                        # the documented lower-level entry point: explicit
                        # lists of files (one per channel); the caller keeps
                        # its lists and uses them again
                        if not flat and gz:
                            s2p.slices_to_raw_chunks(file_lists, dest, code)
                        else:
                            s2p.slices_to_raw_chunks(
                                file_lists, dest, code,
                                options={"flat": flat, "gzip": gz})
                        if [list(fl) for fl in file_lists] != lists_before:
                            # not a violation by itself: the second volume
                            # made from the same list objects decides
                            ctx.count("callers_lists_changed")
                    else:
                        if not flat and gz:
                            # the documented defaults: no options argument
                            s2p.convert_slices_in_directory(
                                [Path(p) for p in dirs], dest, code)
                        else:
                            s2p.convert_slices_in_directory(
                                [Path(p) for p in dirs], dest, code,
                                options={"flat": flat, "gzip": gz})
            except SystemExit as exc:
                ctx.fail("command exited with %r" % (exc.code,))
            except Exception as exc:
                from vlib.runner import _from_repo
                if not _from_repo(exc):
                    raise
                ctx.fail("conversion with orientation %s failed: %s %s (cols,"
                         "rows,slices=%s chunk %s layout %s)" % (
                             code, type(exc).__name__, exc, case["n"],
                             case["chunk"], case["layout"]))
            pio = ds.open_dataset(dest)
            try:
                got = ds.read_scale(pio, info["scales"][0], case["out"], nch)
            except Exception as exc:
                ctx.fail("orientation %s: not all chunks of the full-resolution "
                         "scale can be read back: %s %s (n=%s chunk %s)" % (
                             code, type(exc).__name__, exc, case["n"],
                             case["chunk"]))
            X, Y, Z = size
            hi_out = None
            if np.dtype(case["out"]).kind == "u":
                hi_out = int(np.iinfo(case["out"]).max)
            for c in range(nch):
                for z in range(Z):
                    for y in range(Y):
                        for x in range(X):
                            q, r, s = orient_ref.source_index(code, ncol, nrow,
                                                              nsl, x, y, z)
                            want = stack[c, s, r, q]
                            if hi_out is not None and want > hi_out:
                                # narrowing target (only generated by the C11
                                # sub-check "slices"): saturation, never wrap
                                want = np.dtype(case["out"]).type(hi_out)
                            if got[c, z, y, x] != want:
                                ctx.fail("orientation %s: output voxel (x,y,z)="
                                         "(%d,%d,%d) channel %d holds %r, the "
                                         "code designates input pixel (column %d,"
                                         " row %d, slice %d) = %r (cols,rows,"
                                         "slices=%s chunk %s layout %s)" % (
                                             code, x, y, z, c,
                                             got[c, z, y, x].item(), q, r, s,
                                             want.item(), case["n"],
                                             case["chunk"], case["layout"]))
        # slice axis of the chunk grid
        slice_axis = orient_ref.AXIS[code[2]]
        depth = case["chunk"][slice_axis]
        groups = -(-nsl // depth)
        return groups >= 2 or nsl % depth != 0
    finally:
        ctx.rmtree(d)


def run_large(ctx, n):
    """Slices wider / taller than 256 pixels, more slices than one chunk of
    64, chunk sizes of 32 and 64."""
    @st.composite
    def strat(draw):
        code = draw(st.sampled_from(CODES))
        big = draw(st.integers(0, 2))
        dims = [draw(st.integers(1, 4)) for _ in range(3)]
        dims[big] = draw(st.sampled_from([257, 260, 300, 130, 65]))
        return {"code": code, "n": dims,
                "chunk": [draw(st.sampled_from([32, 64])) for _ in range(3)],
                "layout": draw(st.sampled_from(["grey", "rgb", "dirs2"])),
                "pix": "uint8", "out": draw(st.sampled_from(["uint8",
                                                             "uint16"])),
                "acc": draw(st.sampled_from(["flat", "deep_gz"])),
                "cli": draw(st.booleans()),
                "seed": draw(st.integers(0, 1000))}

    def check(ctx, case):
        check_case(ctx, case)
        ctx.record(case, True, ["large", "code." + case["code"]])
    ctx.run_hypothesis(strat(), check, n)


def run(ctx, n):
    mine = CODES[ctx.shard::ctx.nshards]
    per = max(2, n // len(CODES))
    for code in mine:
        def check(ctx, case):
            nt = check_case(ctx, case)
            ctx.record(case, nt, ["code." + case["code"], case["layout"],
                                  "pix." + case["pix"],
                                  "reversed_slices" if case["code"][2] in "LPI"
                                  else "forward_slices",
                                  "cli" if case["cli"] else
                                  "explicit_lists_twice"
                                  if case["seed"] % 3 == 0 else "api",
                                  "enc.cseg" if case.get("block") else
                                  "enc.raw",
                                  "naming." + case.get("naming", "padded"),
                                  "symlinks" if case.get("symlinks") else
                                  "plain_files",
                                  "mixed_pixel_types" if case.get("pixs") and
                                  len(set(case["pixs"])) > 1 else
                                  "one_pixel_type"])
        ctx.run_hypothesis(cases(code), check, per)


def replay(ctx, case):
    check_case(ctx, case)


SUBS = [Sub("orient", run, replay, quick=384, thorough=108000, shards=12,
            sweep=True),
        Sub("large", run_large, replay, quick=48, thorough=14400, shards=8)]
