"""C06 - each pyramid level equals the whole previous level downscaled once."""
import contextlib
import copy
import os
import shutil

import numpy as np
from hypothesis import strategies as st

from vlib import datasets as ds
from vlib.refs import pyramid_model
from vlib.runner import Sub

PROPERTY = "C06"
META = {
    "level": "exploration",
    "rule": ("two sources of infos: (a) the scale generator on sizes 1..48 "
             "per axis, resolution ratios {1,1.26,1.5,2,3,4,8,16}, target "
             "chunk 2..16; (b) hand-built two-scale infos with arbitrary "
             "(old chunk, new chunk, factor in {1,2}) pairs, including size "
             "pairs that are not ceil(size/f). x method x outside value x "
             "data type x channels x encoding x layout. non-trivial = a new "
             "chunk assembled from >= 2 old chunks on some axis, or an odd "
             "size, or an anisotropic step; distinct by the whole case."
             " Also: the 'auto' method, wide-dynamic-range / full-range vo"
             'xel values, scale 0 replaced and the pyramid recomputed thro'
             'ugh the same handle; huge: target chunk sizes 128 / 256 (reg'
             'ions of more than 2^23 voxels).'
             " Round 14: the reference downscaler is constructed directly (not through get_downscaler's option handling)."
             " Round 19: scale 0 written by the held handle, replaced through a separate handle, pyramid recomputed through the held one."),
    "trusted_base": ["the package's Downscaler applied to one whole array "
                     "(its correctness is C07's subject)",
                     "vlib/refs/pyramid_model.py for the must-succeed "
                     "envelope"],
    "assumptions": ["uint64 test values stay below 2^40 (F17c is C07's "
                    "finding)", "lossless encodings only"],
}

RATIOS = [1, 1, 1.26, 1.5, 2, 3, 4, 8, 16]
DTYPES = ["uint8", "uint16", "uint32", "uint64", "float32"]


class NpProxy:
    """Stands in for the `np` name of dyadic_pyramid: np.empty returns
    buffers filled with a poison byte."""

    def __init__(self, byte):
        self._byte = byte

    def __getattr__(self, name):
        return getattr(np, name)

    def empty(self, shape, dtype=float, **kw):
        a = np.empty(shape, dtype=dtype, **kw)
        a.reshape(-1).view(np.uint8)[:] = self._byte
        return a


@contextlib.contextmanager
def poisoned(byte):
    from neuroglancer_scripts import dyadic_pyramid
    orig = dyadic_pyramid.np
    dyadic_pyramid.np = NpProxy(byte)
    try:
        yield
    finally:
        dyadic_pyramid.np = orig


acc_kinds = st.sampled_from([
    {"type": "sharded", "strategy": "in memory", "bits": [1, 1, 0]},
    {"type": "sharded", "strategy": "on disk", "bits": [0, 2, 1]},
    {"type": "file", "flat": False, "gzip": True, "compresslevel": 1},
    {"type": "file", "flat": True, "gzip": False},
    {"type": "file", "flat": False, "gzip": False},
    {"type": "file", "flat": True, "gzip": True, "compresslevel": 1},
])


@st.composite
def common(draw):
    method = draw(st.sampled_from(["average", "average", "majority", "stride",
                                   "auto"]))
    enc = draw(st.sampled_from(["raw", "raw", "compressed_segmentation"]))
    if enc == "compressed_segmentation":
        dtype = draw(st.sampled_from(["uint32", "uint64"]))
    else:
        dtype = draw(st.sampled_from(DTYPES))
    b = st.sampled_from([1, 2, 3, 8])
    return {"method": method,
            "outside": draw(st.sampled_from([None, None, 0, 255])),
            "dtype": dtype, "channels": draw(st.integers(1, 2)),
            "encoding": enc, "block": [draw(b), draw(b), draw(b)],
            "type": draw(st.sampled_from(["image", "segmentation"])),
            "acc": draw(acc_kinds), "seed": draw(st.integers(0, 2 ** 31))}


@st.composite
def generated_cases(draw):
    c = draw(common())
    lim = 14 if c["method"] == "majority" else 48
    dim = st.one_of(st.integers(1, lim), st.sampled_from([1, 2, 7, 9, lim]))
    c.update({"mode": "generated",
              "size": [draw(dim), draw(dim), draw(dim)],
              "ratios": [draw(st.sampled_from(RATIOS)) for _ in range(3)],
              "target": draw(st.sampled_from([2, 4, 8, 16])),
              "max_scales": draw(st.sampled_from([None, None, 2, 3]))})
    # bound the cost by the generated size: at most ~1500 chunks at full
    # resolution (each chunk is one file, the pyramid is computed twice)
    while True:
        s0 = _build_info(c)["scales"][0]
        n = 1
        for a, b in zip(s0["size"], s0["chunk_sizes"][0]):
            n *= ds.ceil_div(a, b)
        if n <= 1500:
            break
        i = max(range(3), key=lambda k: c["size"][k])
        c["size"][i] = max(1, c["size"][i] // 2)
    return c


@st.composite
def hand_cases(draw):
    c = draw(common())
    lim = 12 if c["method"] == "majority" else 24
    size = [draw(st.integers(1, lim)) for _ in range(3)]
    f = [draw(st.sampled_from([1, 2, 2])) for _ in range(3)]
    new_size = [ds.ceil_div(s, k) for s, k in zip(size, f)]
    bad = draw(st.integers(0, 7)) == 0
    if bad:
        a = draw(st.integers(0, 2))
        new_size[a] = max(1, new_size[a] + draw(st.sampled_from([-1, 1, 2])))
    cs = st.one_of(st.integers(1, 9), st.sampled_from([1, 2, 4, 8, 16]))
    c.update({"mode": "hand",
              "scales": [[size, [draw(cs), draw(cs), draw(cs)]],
                         [new_size, [draw(cs), draw(cs), draw(cs)]]]})
    # bound the cost: at most ~1500 chunks per scale
    for sz, ch in c["scales"]:
        while ds.ceil_div(sz[0], ch[0]) * ds.ceil_div(sz[1], ch[1]) * \
                ds.ceil_div(sz[2], ch[2]) > 1500:
            i = min(range(3), key=lambda k: ch[k])
            ch[i] *= 2
    return c


def effective_acc(case, info):
    """Sharded storage needs cubic chunks: fall back to files otherwise."""
    acc = case["acc"]
    if acc["type"] == "sharded" and any(
            len(set(s["chunk_sizes"][0])) != 1 for s in info["scales"]):
        return {"type": "file", "flat": False, "gzip": False}
    return acc


def build_info(case):
    info = _build_info(case)
    acc = effective_acc(case, info)
    if acc["type"] == "sharded":
        for s in info["scales"]:
            s["sharding"] = ds.sharding_dict(*acc["bits"])
    return info


def _build_info(case):
    from neuroglancer_scripts import dyadic_pyramid
    block = case["block"] if case["encoding"] == \
        "compressed_segmentation" else None
    if case["mode"] == "generated":
        info = ds.make_info(case["dtype"], case["channels"], [{
            "size": list(case["size"]),
            "resolution": [1000.0 * r for r in case["ratios"]],
            "voxel_offset": [0, 0, 0], "encoding": case["encoding"]}],
            case["type"])
        if block:
            info["scales"][0]["compressed_segmentation_block_size"] = block
        dyadic_pyramid.fill_scales_for_dyadic_pyramid(
            info, target_chunk_size=case["target"],
            max_scales=case["max_scales"])
        return info
    scales = []
    for i, (size, chunk) in enumerate(case["scales"]):
        scales.append(ds.make_scale("s%d" % i, size, chunk, case["encoding"],
                                    block=block))
    return ds.make_info(case["dtype"], case["channels"], scales, case["type"])


def make_volume(case, info):
    size = info["scales"][0]["size"]
    rng = np.random.default_rng(case["seed"])
    shape = (case["channels"], size[2], size[1], size[0])
    dt = np.dtype(case["dtype"])
    if case["method"] in ("majority",) or case["type"] == "segmentation":
        vals = rng.integers(0, 4, size=shape)
    elif dt.kind == "f":
        if case["seed"] % 2 == 0:
            # wide dynamic range: sums of such values are not exact in
            # float64, so the order of the additions shows
            pool = np.array([3.4028234663852886e38, -3.4028234663852886e38,
                             1e30, -1e30, 7e8, 1.5, 3.25, 99.0, 1e-30, 0.0,
                             -2.5, 16777217.0], dtype=dt)
            return pool[rng.integers(0, len(pool), size=shape)]
        return rng.normal(0, 100, size=shape).astype(dt)
    else:
        hi = min(int(np.iinfo(dt).max), 2 ** 40)
        if case["seed"] % 2 == 0:
            hi = int(np.iinfo(dt).max)      # the whole range of the type
        vals = rng.integers(0, hi, size=shape, endpoint=True, dtype=np.uint64)
    return vals.astype(dt)


def check_case(ctx, case):
    from neuroglancer_scripts import downscaling, dyadic_pyramid
    info = build_info(case)
    scales = info["scales"]
    dtype, C = case["dtype"], case["channels"]
    base = ctx.tmpdir("pyr")
    try:
        src = os.path.join(base, "src")
        acc = effective_acc(case, info)
        pio = ds.new_dataset(info, acc, src)
        vol = make_volume(case, info)
        ds.write_scale(pio, scales[0], vol)
        ds.close_accessor(pio)
        envelope = all(pyramid_model.transition_outcome(
            scales[i], scales[i + 1])[0] == "ok"
            for i in range(len(scales) - 1))
        results = []
        handles = []
        opts = {}
        if case["outside"] is not None:
            opts["outside_value"] = float(case["outside"])
        for name, byte in (("a", 0x5A), ("b", 0xA5)):
            d = os.path.join(base, name)
            shutil.copytree(src, d)
            pio2 = ds.open_dataset(d, {k: v for k, v in acc.items()
                                       if k in ("flat", "gzip",
                                                "compresslevel")})
            downscaler = downscaling.get_downscaler(case["method"],
                                                    pio2.info, opts)
            # a downscaler object may already have served another dataset
            # (other data type, other shape)
            with np.errstate(all="ignore"):
                downscaler.downscale(np.arange(24, dtype="uint16" if dtype !=
                                               "uint16" else "float32"
                                               ).reshape(1, 2, 3, 4),
                                     (1, 1, 1))
            err = None
            try:
                with poisoned(byte), np.errstate(all="ignore"):
                    dyadic_pyramid.compute_dyadic_scales(pio2, downscaler)
            except Exception as exc:      # noqa
                err = exc
            if err is not None:
                if envelope:
                    ctx.fail("pyramid computation failed with %s: %s although "
                             "all scale transitions are supported (sizes %s "
                             "chunks %s)" % (
                                 type(err).__name__, err,
                                 [s["size"] for s in scales],
                                 [s["chunk_sizes"][0] for s in scales]))
                results.append(None)
                continue
            pio3 = ds.open_dataset(d)
            levels = [ds.read_scale(pio3, s, dtype, C) for s in scales]
            results.append(levels)
            handles.append((d, pio2, downscaler))
        if results[0] is None or results[1] is None:
            if (results[0] is None) != (results[1] is None):
                ctx.fail("the computation fails or succeeds depending on the "
                         "content of uninitialised buffers")
            return {"error": True, "envelope": envelope}
        for lvl, (la, lb) in enumerate(zip(*results)):
            if la.tobytes() != lb.tobytes():
                bad = np.argwhere(la != lb)[0].tolist()
                ctx.fail("level %d voxel (c,z,y,x)=%s is left unwritten (two "
                         "runs with differently poisoned buffers disagree); "
                         "sizes %s chunks %s" % (
                             lvl, bad, [s["size"] for s in scales],
                             [s["chunk_sizes"][0] for s in scales]))
        levels = results[0]
        if not np.array_equal(levels[0].view(np.uint8), vol.view(np.uint8)):
            ctx.fail("scale 0 was modified by the pyramid computation")
        # the reference names the method explicitly ("auto" is documented as
        # average for images and stride for segmentations)
        explicit = case["method"]
        if explicit == "auto":
            explicit = "average" if info["type"] == "image" else "stride"
        # ... and is constructed directly (not through the option handling
        # of get_downscaler, which the computation above went through)
        if explicit == "average":
            downscaler = downscaling.AveragingDownscaler(
                None if case["outside"] is None else float(case["outside"]))
        elif explicit == "majority":
            downscaler = downscaling.MajorityDownscaler()
        else:
            downscaler = downscaling.StridingDownscaler()
        for i in range(len(scales) - 1):
            f = [1 if a == b else 2 for a, b in zip(scales[i]["size"],
                                                    scales[i + 1]["size"])]
            with np.errstate(all="ignore"):
                want = downscaler.downscale(levels[i], f)
            got = levels[i + 1]
            if want.shape != got.shape or want.tobytes() != got.tobytes():
                if want.shape == got.shape:
                    bad = np.argwhere(want != got)[0].tolist()
                    detail = "first difference at (c,z,y,x)=%s: %r vs %r" % (
                        bad, got[tuple(bad)].item(), want[tuple(bad)].item())
                else:
                    detail = "shape %s vs %s" % (got.shape, want.shape)
                ctx.fail("level %d differs from the whole level %d downscaled "
                         "by %s (%s): %s; sizes %s->%s chunks %s->%s" % (
                             i + 1, i, f, case["method"], detail,
                             scales[i]["size"], scales[i + 1]["size"],
                             scales[i]["chunk_sizes"][0],
                             scales[i + 1]["chunk_sizes"][0]))
        # ---- the full-resolution scale is replaced and the pyramid computed
        # again through the SAME handle and downscaler (an updated volume)
        if acc["type"] == "file" and case["seed"] % 3 == 1 and handles:
            d, pio2, dscaler = handles[0]
            vol2 = make_volume(dict(case, seed=case["seed"] + 7), info)
            if vol2.tobytes() == vol.tobytes():
                vol2 = vol2[:, ::-1].copy()
            if (case["seed"] // 3) % 2:
                ds.write_scale(pio2, scales[0], vol2)
            else:
                # ... by another program: a separate handle on the directory
                # writes the new volume, the held handle computes the pyramid
                # (the held handle has itself written the full-resolution
                # scale earlier, as the all-in-one conversion does)
                ds.write_scale(pio2, scales[0], vol)
                other = ds.open_dataset(d, {k: v for k, v in acc.items()
                                            if k in ("flat", "gzip",
                                                     "compresslevel")})
                ds.write_scale(other, scales[0], vol2)
                ctx.count("scale0_replaced_through_another_handle")
            try:
                with np.errstate(all="ignore"):
                    dyadic_pyramid.compute_dyadic_scales(pio2, dscaler)
            except Exception as exc:
                ctx.fail("second pyramid computation through the same handle "
                         "failed with %s: %s" % (type(exc).__name__, exc))
            pio4 = ds.open_dataset(d)
            lv = [ds.read_scale(pio4, s_, dtype, C) for s_ in scales]
            if lv[0].tobytes() != vol2.tobytes():
                ctx.fail("scale 0 does not hold the replaced volume")
            for i in range(len(scales) - 1):
                f = [1 if a == b else 2 for a, b in zip(scales[i]["size"],
                                                        scales[i + 1]["size"])]
                with np.errstate(all="ignore"):
                    want = downscaler.downscale(lv[i], f)
                if want.tobytes() != lv[i + 1].tobytes():
                    bad = np.argwhere(want != lv[i + 1])
                    ctx.fail("after scale 0 was replaced and the pyramid "
                             "recomputed through the same handle, level %d "
                             "differs from the whole level %d downscaled by "
                             "%s (%s)%s; sizes %s->%s" % (
                                 i + 1, i, f, case["method"],
                                 " first at (c,z,y,x)=%s" % bad[0].tolist()
                                 if len(bad) else "", scales[i]["size"],
                                 scales[i + 1]["size"]))
            ctx.count("recomputed_after_update")
        return {"error": False, "envelope": envelope}
    finally:
        ctx.rmtree(base)


def nontrivial(case):
    info = build_info(case)
    sc = info["scales"]
    for i in range(len(sc) - 1):
        f = [1 if a == b else 2 for a, b in zip(sc[i]["size"],
                                                sc[i + 1]["size"])]
        if len(set(f)) > 1 or any(s % 2 for s, k in zip(sc[i]["size"], f)
                                  if k == 2):
            return True
        for a in range(3):
            if sc[i + 1]["chunk_sizes"][0][a] * f[a] > \
                    sc[i]["chunk_sizes"][0][a] and sc[i]["size"][a] > \
                    sc[i]["chunk_sizes"][0][a]:
                return True
    return False


def run_mode(strategy):
    def run(ctx, n):
        def check(ctx, case):
            r = check_case(ctx, case)
            ctx.record(case, nontrivial(case) and not r["error"], [
                case["method"], case["dtype"], case["encoding"],
                "acc." + effective_acc(case, _build_info(case))["type"] + (
                    ".flat" if case["acc"].get("flat") else ""),
                "error" if r["error"] else "computed",
                "envelope" if r["envelope"] else "outside_envelope"])
        ctx.run_hypothesis(strategy, check, n)
    return run


def grid_cases():
    """The complete product of the discrete options (method x data type x
    encoding x dataset type x outside value x storage layout x channels) on
    one small dataset whose sizes are odd on two axes."""
    accs = [
        {"type": "sharded", "strategy": "in memory", "bits": [1, 1, 0]},
        {"type": "sharded", "strategy": "on disk", "bits": [0, 2, 1]},
        {"type": "file", "flat": False, "gzip": True, "compresslevel": 1},
        {"type": "file", "flat": True, "gzip": False},
        {"type": "file", "flat": False, "gzip": False}]
    out = []
    k = 0
    for method in ("average", "majority", "stride", "auto"):
        for dtype in DTYPES:
            for enc in ("raw", "compressed_segmentation"):
                if enc != "raw" and dtype not in ("uint32", "uint64"):
                    continue
                for typ in ("image", "segmentation"):
                    for outside in (None, 0, 255):
                        for acc in accs:
                            k += 1
                            out.append({
                                "method": method, "outside": outside,
                                "dtype": dtype, "channels": 1 + k % 2,
                                "encoding": enc, "block": [2, 2, 2],
                                "type": typ, "acc": acc, "seed": k,
                                "mode": "generated", "size": [5, 4, 3],
                                "ratios": [1, 1, 1 + k % 2], "target": 2,
                                "max_scales": None})
    return out


def run_grid(ctx, n):
    def check(ctx, case):
        r = check_case(ctx, case)
        ctx.record(case, nontrivial(case) and not r["error"], [
            case["method"], case["dtype"], case["encoding"],
            "type." + case["type"], "outside.%s" % case["outside"],
            "error" if r["error"] else "computed"])
    ctx.run_grid(grid_cases(), check)


@st.composite
def large_cases(draw):
    """Volumes beyond 64^3 voxels (odd sizes, several chunks of 32+)."""
    c = draw(common())
    if c["method"] == "majority":
        c["method"] = "average"       # the majority downscaler is a Python loop
    if c["encoding"] == "compressed_segmentation":
        c["block"] = [8, 8, 8]
    c["channels"] = 1
    c["acc"] = draw(st.sampled_from([
        {"type": "file", "flat": True, "gzip": False},
        {"type": "sharded", "strategy": "on disk", "bits": [1, 1, 0]}]))
    c.update({"mode": "generated",
              "size": [draw(st.sampled_from([65, 67, 69, 71, 72, 90])),
                       draw(st.sampled_from([64, 67, 71, 80])),
                       draw(st.sampled_from([63, 65, 69, 70]))],
              "ratios": draw(st.sampled_from([[1, 1, 1], [1, 1, 2],
                                              [2, 1, 1]])),
              "target": draw(st.sampled_from([16, 32])),
              "max_scales": draw(st.sampled_from([2, 3]))})
    return c


def run_huge(ctx, n):
    """Chunks of 128 / 256 voxels per axis: one new chunk is computed from a
    region of more than 2**23 voxels of the previous scale, clipped at the
    volume border with odd extents."""
    sizes = [([600, 140, 127], 256), ([300, 270, 131], 128),
             ([519, 263, 67], 256)]
    for k in range(max(1, min(n, len(sizes)))):
        size, target = sizes[k]
        case = {"method": ["average", "stride", "average"][k],
                "outside": None, "dtype": "uint8", "channels": 1,
                "encoding": "raw", "block": [8, 8, 8], "type": "image",
                "acc": {"type": "file", "flat": True, "gzip": False},
                "seed": ctx.seed * 3 + 2 + 3 * k, "mode": "generated",
                "size": size, "ratios": [1, 1, 1], "target": target,
                "max_scales": 2}
        try:
            check_case(ctx, case)
        except AssertionError as exc:
            if type(exc).__name__ != "Violation":
                raise
            ctx.violations.append({"sub": "huge", "case": case,
                                   "message": str(exc)})
            break
        ctx.record(case, True, ["target%d" % target])


def replay(ctx, case):
    check_case(ctx, case)


SUBS = [
    Sub("generated", run_mode(generated_cases()), replay, quick=300,
        thorough=8000, min_per_shard=10),
    Sub("handbuilt", run_mode(hand_cases()), replay, quick=300,
        thorough=8000, min_per_shard=10),
    Sub("large", run_mode(large_cases()), replay, quick=12, thorough=300,
        shards=4),
    Sub("option_grid", run_grid, replay, quick=1, thorough=1, shards=14,
        sweep=True),
    Sub("huge", run_huge, replay, quick=1, thorough=3, shards=1),
]
