"""C12 - file storage returns the latest stored bytes under every layout."""
import gzip
import json
import os
import shutil
import urllib.parse

from hypothesis import strategies as st
from hypothesis.stateful import (RuleBasedStateMachine, initialize, invariant,
                                 rule)

from vlib import datasets as ds
from vlib.runner import Sub, checked, logged, replay_history

PROPERTY = "C12"
META = {
    "level": "exploration",
    "rule": ("Hypothesis rule-based state machine: histories of store_file / "
             "fetch_file / file_exists / store_chunk / fetch_chunk / "
             "cross-configuration reads / URL re-opens / escape attempts over "
             "a FileAccessor(flat, gzip, compresslevel); names from a "
             "prefix-free pool with one fixed MIME type each; non-trivial = "
             "history with an overwrite of an existing entry and a cross-"
             "configuration read; distinct by the history."
             ' Also: the writing accessor obtained through get_accessor_fo'
             'r_url and re-opened mid-history, sharded directories address'
             'ed through every URL spelling, contents that look like gzip '
             '/ zlib containers, absolute names inside sibling directories'
             " whose names extend the dataset's."
             " Round 12: a name that is a path prefix of another stored name (file / directory conflicts modelled)."
             " Round 17: one options dictionary object for all factory calls of a history."
             " Round 18: the dataset directory spelled plainly, with '..' or through a symbolic link."),
    "trusted_base": ["dict model", "Python gzip module", "os.walk snapshots"],
    "assumptions": ["one MIME type per name for the whole history (as every "
                    "caller does)", "names never end in .gz"],
}

# ("a/b" is a path prefix of "a/b/c": a file and a directory of the same
# name can sit side by side when one of them carries the .gz suffix)
NAMES = ["info", "transform.json", "mesh/10:0", "mesh/frag_a", "a/b/c",
         "seg:1", "info_fullres.json", "mesh/10", "a/b"]
KEYS = ["s0", "1um", "key:2"]
MIMES = ["application/octet-stream", "application/json", "image/jpeg",
         "image/png"]
NO_GZ = {"application/json", "image/jpeg", "image/png"}
COORDS = [(0, 64, 0, 64, 0, 64), (64, 128, 0, 64, 0, 64), (0, 1, 0, 1, 0, 1),
          (0, 64, 64, 100, 0, 7), (128, 192, 64, 128, 0, 64)]
ESCAPES = ["../outside", "..", "a/../../outside", "../ds_sibling/x",
           "mesh/../../outside", "../../etc/verif_probe", "./../outside",
           "a/b/../../../outside"]

INFOS = [b'{"scales":[]}', b'{}',
         b'{"type":"image","data_type":"uint8","num_channels":1,"scales":'
         b'[{"key":"s0","size":[1,1,1],"chunk_sizes":[[1,1,1]],"encoding":'
         b'"raw","resolution":[1,1,1],"voxel_offset":[0,0,0]}]}']

# contents that look like a container themselves: a gzip member, a zlib
# stream, the magic numbers alone, a gzip member followed by other bytes
_GZ = gzip.compress(b"inner payload", mtime=0)
MAGIC_CONTENTS = [_GZ, _GZ + b"tail", _GZ[:3], _GZ[:10], b"\x1f\x8b",
                  b"\x1f\x8b\x08\x00" + bytes(20), b"x\x9c" + bytes(6),
                  b"x\x9c\x03\x00\x00\x00\x00\x01", b"\x1f", b"\x8b\x1f"]
content_st = st.one_of(st.binary(max_size=48), st.just(b""),
                       st.binary(min_size=200, max_size=400),
                       st.sampled_from(MAGIC_CONTENTS),
                       st.builds(lambda m, b: m + b,
                                 st.sampled_from(MAGIC_CONTENTS),
                                 st.binary(max_size=20)))


def chunk_rel(key, cc, flat):
    if flat:
        return "%s/%d-%d_%d-%d_%d-%d" % ((key,) + tuple(cc))
    return "%s/%d-%d/%d-%d/%d-%d" % ((key,) + tuple(cc))


class FileStore(RuleBasedStateMachine):
    plain_invariants = ("agrees",)

    def __init__(self):
        super().__init__()
        self.history = []
        self.root = None
        self.files = {}
        self.chunks = {}
        self.ops = set()

    # -- set-up ---------------------------------------------------------------
    @initialize(flat=st.booleans(), gz=st.booleans(),
                level=st.sampled_from([0, 1, 9]),
                via=st.sampled_from(["direct", "plain", "file",
                                     "precomputed_file"]),
                file_mimes=st.lists(st.sampled_from([0, 0, 0, 1, 2, 3]),
                                    min_size=len(NAMES), max_size=len(NAMES)),
                key_mimes=st.lists(st.integers(0, 3), min_size=len(KEYS),
                                   max_size=len(KEYS)))
    @logged
    def setup(self, flat, gz, level, file_mimes, key_mimes, via="direct"):
        self.root = self._ctx.tmpdir("fs")
        self.base = os.path.join(self.root, "ds")
        os.makedirs(self.base)
        # how the program spells the directory: plainly, with a ".."
        # component, or through a symbolic link (the oracle always looks at
        # the real directory)
        spelling = ("plain", "plain", "dotdot", "symlink")[
            (sum(file_mimes) + sum(key_mimes) + level) % 4]
        self.base_arg = self.base
        # (the link lives outside the tree that the escape rules snapshot)
        self.aux = self.root + "_aux"
        os.makedirs(self.aux)
        if spelling == "dotdot":
            self.base_arg = os.path.join(self.aux, "..", os.path.basename(
                self.root), "ds")
        elif spelling == "symlink":
            os.symlink(self.base, os.path.join(self.aux, "link"))
            self.base_arg = os.path.join(self.aux, "link")
        self.ops.add("base_spelled_" + spelling)
        with open(os.path.join(self.root, "sentinel"), "wb") as f:
            f.write(b"sentinel")
        os.makedirs(os.path.join(self.root, "ds_sibling"))
        self.cfg = {"flat": flat, "gzip": gz, "compresslevel": level}
        self.acc = self.make_writer(via)
        self.file_mime = {n: MIMES[file_mimes[k % len(file_mimes)]]
                          for k, n in enumerate(NAMES)}
        self.file_mime["info"] = "application/json"
        self.key_mime = {k: MIMES[i] for k, i in zip(KEYS, key_mimes)}

    def teardown(self):
        if self.root:
            shutil.rmtree(self.root, ignore_errors=True)
            shutil.rmtree(self.root + "_aux", ignore_errors=True)

    # -- helpers ---------------------------------------------------------------
    def make_writer(self, via):
        """The one storage configuration of this directory, obtained either
        by constructing the accessor directly or through the public factory
        (as every script does)."""
        from neuroglancer_scripts import accessor, file_accessor
        if via == "direct":
            return file_accessor.FileAccessor(
                self.base_arg, flat=self.cfg["flat"], gzip=self.cfg["gzip"],
                compresslevel=self.cfg["compresslevel"])
        url = {"plain": self.base_arg, "file": "file://" + self.base_arg,
               "precomputed_file": "precomputed://file://" + self.base_arg
               }[via]
        # the program keeps ONE options dictionary (vars(args)) and passes it
        # every time it opens the directory
        if not hasattr(self, "shared_opts"):
            self.shared_opts = dict(self.cfg)
        acc = accessor.get_accessor_for_url(url, self.shared_opts)
        if not isinstance(acc, file_accessor.FileAccessor):
            self.fail("URL %r gave a %s" % (url, type(acc).__name__))
        self.ops.add("writer_via_factory")
        return acc

    def fail(self, msg):
        self._ctx.fail("%s (config %s)" % (msg, self.cfg))

    def path_conflict(self, name, mime):
        """Does the path this name is stored under collide with a directory,
        or one of its parent directories with a file?"""
        gz = self.cfg["gzip"] and mime not in NO_GZ
        target = os.path.join(self.base, name) + (".gz" if gz else "")
        if os.path.isdir(target):
            return True
        p = os.path.dirname(target)
        while len(p) > len(self.base):
            if os.path.isfile(p):
                return True
            p = os.path.dirname(p)
        return False

    def expect_path(self, rel, mime, content):
        gz = self.cfg["gzip"] and mime not in NO_GZ
        p = os.path.join(self.base, rel)
        if gz:
            if os.path.isfile(p):
                self.fail("uncompressed file %s exists although compression "
                          "applies" % rel)
            if not os.path.isfile(p + ".gz"):
                self.fail("expected %s.gz on disk, tree is %s" % (
                    rel, sorted(ds.tree_snapshot(self.base))))
            try:
                with gzip.open(p + ".gz", "rb") as f:
                    got = f.read()
            except Exception as exc:
                self.fail("%s.gz is not a valid gzip stream: %s" % (rel, exc))
        else:
            if os.path.exists(p + ".gz"):
                self.fail("%s.gz exists although compression does not apply "
                          "(mime %s)" % (rel, mime))
            if not os.path.isfile(p):
                self.fail("expected %s on disk, tree is %s" % (
                    rel, sorted(ds.tree_snapshot(self.base))))
            with open(p, "rb") as f:
                got = f.read()
        if got != content:
            self.fail("file %s holds %d bytes that differ from the %d bytes "
                      "stored" % (rel, len(got), len(content)))

    # -- files -----------------------------------------------------------------
    @rule(i=st.integers(0, len(NAMES) - 1), content=content_st,
          overwrite=st.booleans())
    @logged
    def store_file(self, i, content, overwrite):
        self._do_store_file(i, content, overwrite)

    @rule(first=st.booleans(), c1=content_st, c2=content_st)
    @logged
    def store_nested_names(self, first, c1, c2):
        """A name and a name below it ("a/b" and "a/b/c"), in either order,
        then both are fetched."""
        pair = [NAMES.index("a/b"), NAMES.index("a/b/c")]
        if first:
            pair.reverse()
        self._do_store_file(pair[0], c1, True)
        self._do_store_file(pair[1], c2, True)
        self.ops.add("nested_names")
        for i in pair:
            self._fetch_file(self.acc, NAMES[i], "same accessor")

    def _do_store_file(self, i, content, overwrite):
        from neuroglancer_scripts.accessor import DataAccessError
        name = NAMES[i]
        mime = self.file_mime[name]
        exists = name in self.files
        if name == "info":
            # every real caller stores a JSON object there (and the accessor
            # factory parses it): keep the generated history inside that
            content = INFOS[len(content) % len(INFOS)]
        conflict = self.path_conflict(name, mime)
        try:
            self.acc.store_file(name, content, mime_type=mime,
                                overwrite=overwrite)
        except DataAccessError:
            if conflict:
                # the file system cannot hold a file and a directory of one
                # name: a refusal, nothing stored
                self.ops.add("refused_name_conflict")
                return
            if exists and not overwrite:
                self.ops.add("refused_overwrite")
                self.expect_path(name, mime, self.files[name])
                return
            self.fail("store_file(%r, overwrite=%s) failed although %s" % (
                name, overwrite, "the name is new" if not exists
                else "overwriting is allowed"))
        if exists and not overwrite:
            self.fail("store_file(%r, overwrite=False) replaced an existing "
                      "file" % name)
        if exists:
            self.ops.add("overwrite")
        self.files[name] = content
        self.expect_path(name, mime, content)

    @rule(i=st.integers(0, len(NAMES) - 1))
    @logged
    def fetch_file(self, i):
        self._fetch_file(self.acc, NAMES[i], "same accessor")

    def _fetch_file(self, acc, name, who):
        from neuroglancer_scripts.accessor import DataAccessError
        try:
            got = acc.fetch_file(name)
        except DataAccessError:
            if name in self.files:
                self.fail("fetch_file(%r) via %s failed although it was "
                          "stored" % (name, who))
            return
        if name not in self.files:
            self.fail("fetch_file(%r) via %s returned %d bytes for a name "
                      "that was never stored" % (name, who, len(got)))
        if got != self.files[name]:
            self.fail("fetch_file(%r) via %s returned %r..., last stored "
                      "%r..." % (name, who, got[:20], self.files[name][:20]))

    @rule(i=st.integers(0, len(NAMES) - 1))
    @logged
    def file_exists(self, i):
        name = NAMES[i]
        got = self.acc.file_exists(name)
        if bool(got) != (name in self.files):
            self.fail("file_exists(%r) = %r but the name %s stored" % (
                name, got, "was" if name in self.files else "was never"))

    # -- chunks ----------------------------------------------------------------
    @rule(k=st.integers(0, len(KEYS) - 1), c=st.integers(0, len(COORDS) - 1),
          size=st.sampled_from([70000, 300000, 1100000, 2200000]),
          seed=st.integers(0, 250), compressible=st.booleans(),
          overwrite=st.sampled_from([None, True, False]))
    @logged
    def store_big_chunk(self, k, c, size, seed, compressible, overwrite):
        """Payloads beyond any internal buffer size (64 KiB .. 2 MiB)."""
        if compressible:
            block = bytes((seed + i * 7) % 256 for i in range(1021))
            content = (block * (size // 1021 + 1))[:size]
        else:
            import numpy as np
            content = np.random.default_rng(seed).bytes(size)
        self.ops.add("big_payload")
        if self.cfg["gzip"] and self.key_mime[KEYS[k]] not in NO_GZ and \
                compressible and size > 2 ** 20:
            self.ops.add("big_gzipped_payload>1MiB")
        self._store_chunk(k, c, content, overwrite)

    @rule(k=st.integers(0, len(KEYS) - 1), c=st.integers(0, len(COORDS) - 1),
          content=content_st, overwrite=st.sampled_from([None, True, False]))
    @logged
    def store_chunk(self, k, c, content, overwrite):
        self._store_chunk(k, c, content, overwrite)

    def _store_chunk(self, k, c, content, overwrite):
        from neuroglancer_scripts.accessor import DataAccessError
        key, cc = KEYS[k], COORDS[c]
        mime = self.key_mime[key]
        exists = (key, cc) in self.chunks
        kw = {} if overwrite is None else {"overwrite": overwrite}
        try:
            self.acc.store_chunk(content, key, cc, mime_type=mime, **kw)
        except DataAccessError:
            if exists and overwrite is False:
                self.ops.add("refused_overwrite")
                self.expect_path(chunk_rel(key, cc, self.cfg["flat"]), mime,
                                 self.chunks[(key, cc)])
                return
            self.fail("store_chunk(%s, %s, overwrite=%s) failed" % (
                key, cc, overwrite))
        if exists and overwrite is False:
            self.fail("store_chunk(overwrite=False) replaced an existing "
                      "chunk")
        if exists:
            self.ops.add("overwrite")
        self.chunks[(key, cc)] = content
        self.expect_path(chunk_rel(key, cc, self.cfg["flat"]), mime, content)

    @rule(k=st.integers(0, len(KEYS) - 1), c=st.integers(0, len(COORDS) - 1))
    @logged
    def fetch_chunk(self, k, c):
        self._fetch_chunk(self.acc, KEYS[k], COORDS[c], "same accessor")

    def _fetch_chunk(self, acc, key, cc, who):
        from neuroglancer_scripts.accessor import DataAccessError
        try:
            got = acc.fetch_chunk(key, cc)
        except DataAccessError:
            if (key, cc) in self.chunks:
                self.fail("fetch_chunk(%s, %s) via %s failed although it was "
                          "stored" % (key, cc, who))
            return
        if (key, cc) not in self.chunks:
            self.fail("fetch_chunk(%s, %s) via %s returned data for a chunk "
                      "never stored" % (key, cc, who))
        if got != self.chunks[(key, cc)]:
            self.fail("fetch_chunk(%s, %s) via %s returned %r..., last stored "
                      "%r..." % (key, cc, who, got[:20],
                                 self.chunks[(key, cc)][:20]))

    @rule(via=st.sampled_from(["direct", "plain", "file",
                               "precomputed_file"]))
    @logged
    def new_writer_same_config(self, via):
        """A later command opens the directory again with the same options."""
        self.acc = self.make_writer(via)
        self.ops.add("writer_reopened")

    # -- other configurations / URL forms -----------------------------------------
    @rule(flat=st.booleans(), gz=st.booleans())
    @logged
    def read_as_other_config(self, flat, gz):
        from neuroglancer_scripts.file_accessor import FileAccessor
        other = FileAccessor(self.base, flat=flat, gzip=gz)
        who = "FileAccessor(flat=%s, gzip=%s)" % (flat, gz)
        for name in NAMES:
            self._fetch_file(other, name, who)
            if bool(other.file_exists(name)) != (name in self.files):
                self.fail("file_exists(%r) via %s is wrong" % (name, who))
        for key in KEYS:
            for cc in COORDS:
                self._fetch_chunk(other, key, cc, who)
        if (flat, gz) != (self.cfg["flat"], self.cfg["gzip"]):
            self.ops.add("cross_read")

    @rule(form=st.sampled_from(["plain", "file", "file_localhost",
                                "precomputed_plain", "precomputed_file",
                                "escaped"]),
          opts=st.sampled_from([{}, {"flat": True}, {"gzip": False},
                                {"flat": True, "gzip": False,
                                 "compresslevel": 1}]))
    @logged
    def reopen_via_url(self, form, opts):
        from neuroglancer_scripts import accessor, file_accessor
        base = self.base
        if form == "plain":
            url = base
        elif form == "file":
            url = "file://" + base
        elif form == "file_localhost":
            url = "file://localhost" + base
        elif form == "precomputed_plain":
            url = "precomputed://" + base
        elif form == "precomputed_file":
            url = "precomputed://file://" + base
        else:
            url = "file://" + urllib.parse.quote(base).replace("ds", "%64s")
        acc = accessor.get_accessor_for_url(url, opts)
        if not isinstance(acc, file_accessor.FileAccessor):
            self.fail("URL %r gave a %s" % (url, type(acc).__name__))
        if os.path.realpath(str(acc.base_path)) != os.path.realpath(base):
            self.fail("URL %r resolved to %s instead of %s" % (
                url, acc.base_path, base))
        who = "get_accessor_for_url(%r, %r)" % (url, opts)
        for name in NAMES:
            self._fetch_file(acc, name, who)
        for key in KEYS:
            for cc in COORDS:
                self._fetch_chunk(acc, key, cc, who)
        self.ops.add("cross_read")

    @rule(reopen=st.booleans())
    @logged
    def wipe_and_start_over(self, reopen):
        """The dataset directory is deleted (a failed run is thrown away) and
        the same path is written again in the same process."""
        shutil.rmtree(self.base, ignore_errors=True)
        if os.path.islink(self.base_arg):
            # (a directory reached through a link is emptied, not removed: no
            # program can create a directory through a dangling link)
            os.makedirs(self.base)
        self.files.clear()
        self.chunks.clear()
        if reopen:
            self.acc = self.make_writer("direct")
        self.ops.add("wiped")

    @rule(form=st.sampled_from(["plain", "file", "file_escaped",
                                "precomputed_file_escaped", "slash"]),
          content=content_st)
    @logged
    def sharded_dir_via_url(self, form, content):
        """A directory whose info declares sharded scales, addressed through
        every URL spelling: the factory must give a sharded accessor rooted in
        that very directory."""
        from neuroglancer_scripts import accessor
        from neuroglancer_scripts.sharded_file_accessor import \
            ShardedFileAccessor
        real = os.path.join(self.root, "sharded data")
        os.makedirs(real, exist_ok=True)
        info = ds.make_info("uint8", 1, [ds.make_scale(
            "s0", [4, 4, 4], [2, 2, 2], "raw",
            sharding=ds.sharding_dict(1, 1, 0))])
        with open(os.path.join(real, "info"), "w") as f:
            json.dump(info, f)
        url = {"plain": real, "slash": real + "/", "file": "file://" + real,
               "file_escaped": "file://" + urllib.parse.quote(real),
               "precomputed_file_escaped": "precomputed://file://" +
               urllib.parse.quote(real)}[form]
        before = set(ds.tree_snapshot(self.root))
        acc = accessor.get_accessor_for_url(url)
        if not isinstance(acc, ShardedFileAccessor):
            self.fail("URL %r of a sharded dataset gave a %s" % (
                url, type(acc).__name__))
        name = "probe_%s.json" % form
        body = INFOS[len(content) % len(INFOS)]
        acc.store_file(name, body, mime_type="application/json",
                       overwrite=True)
        if not os.path.isfile(os.path.join(real, name)):
            new = sorted(set(ds.tree_snapshot(self.root)) - before)
            self.fail("a file stored through %r did not land in %r; new "
                      "paths: %s" % (url, real, new[:4]))
        if acc.fetch_file(name) != body:
            self.fail("fetch_file through %r returns other bytes" % url)
        os.unlink(os.path.join(real, name))
        self.ops.add("sharded_url")

    # -- escapes ---------------------------------------------------------------
    @rule(e=st.integers(0, len(ESCAPES) - 1),
          op=st.sampled_from(["exists", "fetch", "store", "store_overwrite"]),
          sharded=st.booleans(), absolute=st.booleans())
    @logged
    def escape(self, e, op, sharded, absolute):
        name = ESCAPES[e]
        if absolute:
            # absolute spellings of outside locations, including one inside a
            # sibling directory whose name merely EXTENDS the dataset's name
            name = [os.path.join(self.root, "abs_outside"),
                    self.base + "_sibling/x",
                    self.base + "_sibling/../ds_sibling/y",
                    self.base + "x"][e % 4]
        if sharded:
            from neuroglancer_scripts.sharded_file_accessor import \
                ShardedFileAccessor
            acc = ShardedFileAccessor(self.base)
        else:
            acc = self.acc
        before = ds.tree_snapshot(self.root)
        # make the probe target exist for reads so that a leak is visible
        try:
            if op == "exists":
                r = acc.file_exists(name)
                outcome = "returned %r" % (r,)
            elif op == "fetch":
                r = acc.fetch_file(name)
                outcome = "returned %d bytes" % len(r)
            else:
                acc.store_file(name, b"escaped", mime_type="application/json",
                               overwrite=(op == "store_overwrite"))
                outcome = "stored"
        except Exception:
            outcome = None
        after = ds.tree_snapshot(self.root)
        if after != before:
            diff = sorted(set(after.items()) ^ set(before.items()))[:4]
            self.fail("%s(%r) on %s touched the file system: %s" % (
                op, name, type(acc).__name__, diff))
        if outcome is not None:
            self.fail("%s(%r) on %s was not refused (%s) although the name "
                      "resolves outside the dataset directory" % (
                          op, name, type(acc).__name__, outcome))
        self.ops.add("escape")

    # -- invariant -------------------------------------------------------------
    @invariant()
    @checked
    def agrees_inv(self):
        if self.root:
            self.agrees()

    def agrees(self):
        for name in NAMES:
            self._fetch_file(self.acc, name, "same accessor (invariant)")
        for (key, cc) in self.chunks:
            self._fetch_chunk(self.acc, key, cc, "same accessor (invariant)")


def run(ctx, n):
    class M(FileStore):
        def teardown(self):
            nt = "overwrite" in self.ops and "cross_read" in self.ops
            ctx.record(self.history, nt, sorted(self.ops) + [
                "flat" if self.cfg["flat"] else "deep",
                "gzip" if self.cfg["gzip"] else "nogzip"]
                if self.root else [])
            super().teardown()
    M.__name__ = "FileStore"
    ctx.run_machine(M, n, 30 if ctx.tier == "quick" else 50)


def replay(ctx, history):
    replay_history(FileStore, ctx, history)


SUBS = [Sub("machine", run, replay, quick=400, thorough=64000,
            min_per_shard=10)]
