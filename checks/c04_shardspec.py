"""C04 - sharded output is readable by any reader that follows the format."""
import os
import re

from checks import shard_common as sc
from vlib.refs import morton, sharded_spec
from vlib.runner import Sub

PROPERTY = "C04"
META = {
    "level": "exploration",
    "rule": ("Hypothesis draws grid (1..5 per axis, thorough to 8), cubic "
             "chunk size, partial last chunks, (minishard, shard, preshift) "
             "bits incl. 0 and totals beyond 64, index/data encodings, a "
             "subset of the grid in a drawn store order, payloads and buffer "
             "strategy; non-trivial = >= 2 populated minishards or shards and "
             "(proper subset or unsorted order); distinct by the whole case."
             ' Also: infos that leave out default-valued sharding fields, '
             'bytes / bytearray / flat memoryview payloads.'),
    "trusted_base": ["vlib/refs/sharded_spec.py reader/validator and "
                     "refs/morton.py, written from the specification"],
}


def check_case(ctx, case):
    d = ctx.tmpdir("shard")
    try:
        sc.write_info(d, case)
        order = [tuple(p) for p in case["order"]]
        try:
            sc.store_all(d, case, order, case["strategy"])
        except Exception as exc:
            from vlib.runner import _from_repo
            if not _from_repo(exc):
                raise
            ctx.fail("sharded writer failed with %s: %s (grid %s bits %s "
                     "order %s)" % (type(exc).__name__, exc, case["grid"],
                                    case["bits"], case["order"][:6]))
        params = sc.params_of(case)
        scale_dir = os.path.join(d, sc.KEY)
        strict = True
        # every stored chunk is found where the specification says
        for pos in order:
            cid = sc.chunk_id(pos, case["grid"])
            want = sc.payload(case["seed"], pos)
            try:
                got = sc.spec_read(ctx, scale_dir, params, cid)
            except sharded_spec.ShardSpecError as exc:
                ctx.fail("spec reader cannot read chunk %s (id %d): %s; grid "
                         "%s bits %s" % (list(pos), cid, exc, case["grid"],
                                         case["bits"]))
            if got != want:
                shard, mini = morton.route(cid, params["preshift_bits"],
                                           params["minishard_bits"],
                                           params["shard_bits"])
                ctx.fail("chunk %s (id %d, shard %d, minishard %d) read by "
                         "the spec reader gives %s, stored %r; grid %s bits "
                         "%s enc %s/%s" % (
                             list(pos), cid, shard, mini,
                             "nothing" if got is None else repr(got[:12]),
                             want[:12], case["grid"], case["bits"],
                             case["index_enc"], case["data_enc"]))
        # structure of every shard file
        expect_shards = {morton.route(sc.chunk_id(p, case["grid"]),
                                      params["preshift_bits"],
                                      params["minishard_bits"],
                                      params["shard_bits"])[0] for p in order}
        names = sorted(os.listdir(scale_dir)) if os.path.isdir(scale_dir) \
            else []
        want_names = sorted(morton.shard_file_stem(s, params["shard_bits"])
                            + ".shard" for s in expect_shards)
        if names != want_names:
            ctx.fail("files in the scale directory %s, specification "
                     "prescribes %s" % (names[:8], want_names[:8]))
        stored_ids = {sc.chunk_id(p, case["grid"]) for p in order}
        for s in expect_shards:
            try:
                try:
                    listing = sharded_spec.validate_shard(scale_dir, params,
                                                          s, True)
                except sharded_spec.NotGzip:
                    if not ctx.known("Fzlib"):
                        raise
                    listing = sharded_spec.validate_shard(scale_dir, params,
                                                          s, False)
            except sharded_spec.ShardSpecError as exc:
                ctx.fail("shard %d is not well formed: %s; grid %s bits %s" % (
                    s, exc, case["grid"], case["bits"]))
            for m, entries in listing.items():
                for cid, pos, size in entries:
                    if size and cid not in stored_ids:
                        ctx.fail("shard %d lists data for chunk %d which was "
                                 "never stored" % (s, cid))
        return True
    finally:
        ctx.rmtree(d)


def run(ctx, n):
    from hypothesis import strategies as st
    max_grid = 5 if ctx.tier == "quick" else 8

    def check(ctx, case):
        check_case(ctx, case)
        pairs, noncontig = sc.routing_stats(case)
        npos = case["grid"][0] * case["grid"][1] * case["grid"][2]
        order = [tuple(p) for p in case["order"]]
        proper = len(order) < npos
        unsorted_ = order != sorted(order, key=lambda p: sc.chunk_id(
            p, case["grid"]))
        ctx.record(case, len(pairs) >= 2 and (proper or unsorted_), [
            "noncontiguous_minishards" if noncontig else "contiguous",
            "subset" if proper else "full", case["strategy"],
            "idx." + case["index_enc"], "data." + case["data_enc"],
            "bits>64" if sum(case["bits"]) > 64 else "bits<=64",
            "empty" if not order else "nonempty"])
    ctx.run_hypothesis(sc.shard_cases(max_grid=max_grid), check, n)


# ---------------------------------------------------------------------------
# sparse subsets of huge grids: identifiers of 50..63 bits
# ---------------------------------------------------------------------------
def huge_cases():
    from hypothesis import strategies as st

    @st.composite
    def strat(draw):
        bits = draw(st.sampled_from([[18, 18, 18], [21, 21, 21], [21, 10, 5],
                                     [17, 18, 19], [20, 20, 13]]))
        grid = [2 ** b for b in bits]
        total = sum(bits)
        pre = draw(st.integers(0, 2))
        mini = draw(st.integers(0, 3))
        gap = draw(st.integers(0, 2))
        shard = max(0, total - pre - mini - gap)
        npos = draw(st.integers(1, 5))
        order = []
        for _ in range(npos):
            pos = [draw(st.one_of(st.sampled_from([g - 1, g - 2, g // 2 + 1]),
                                  st.integers(0, g - 1))) for g in grid]
            if pos not in order:
                order.append(pos)
        return {"grid": grid, "cs": 1, "rem": [0, 0, 0],
                "bits": [mini, shard, pre],
                "index_enc": draw(st.sampled_from(["raw", "gzip"])),
                "data_enc": draw(st.sampled_from(["raw", "gzip"])),
                "order": order,
                "strategy": draw(st.sampled_from(["on disk", "in memory"])),
                "seed": draw(st.integers(0, 2 ** 16))}
    return strat()


def run_huge(ctx, n):
    def check(ctx, case):
        check_case(ctx, case)
        top = max(sc.chunk_id(tuple(p), case["grid"]) for p in case["order"])
        ctx.record(case, top >= 2 ** 53, ["id_bits%d" % (top.bit_length()
                                                          // 8 * 8)])
    ctx.run_hypothesis(huge_cases(), check, n)


# ---------------------------------------------------------------------------
# history: scale s0 written, info replaced through the same accessor (new
# sharding parameters for the not-yet-written scale s1), scale s1 written
# ---------------------------------------------------------------------------
def info_history_cases():
    from hypothesis import strategies as st

    @st.composite
    def strat(draw):
        c = draw(sc.shard_cases(max_grid=3, min_chunks=1))
        c["bits2"] = [draw(st.integers(0, 3)) for _ in range(3)]
        c["enc2"] = draw(st.sampled_from(["raw", "gzip"]))
        c["strategy"] = draw(st.sampled_from(["on disk", "in memory"]))
        return c
    return strat()


def check_info_history(ctx, case):
    import json
    from neuroglancer_scripts import precomputed_io
    from neuroglancer_scripts.sharded_file_accessor import \
        ShardedFileAccessor
    from vlib import datasets as ds
    if not case["order"]:
        return False
    d = ctx.tmpdir("shardhist")
    try:
        s0 = sc.scale_info(case)
        s1 = json.loads(json.dumps(s0))
        s1["key"] = "s1"
        info1 = ds.make_info("uint8", 1, [s0, s1])
        acc = ShardedFileAccessor(d, strategy=case["strategy"])
        precomputed_io.get_IO_for_new_dataset(info1, acc)
        order = [tuple(p) for p in case["order"]]
        for pos in order:
            acc.store_chunk(sc.payload(case["seed"], pos), "s0",
                            sc.coords_of(pos, case["cs"], s0["size"]))
        acc.close()
        s1b = json.loads(json.dumps(s1))
        s1b["sharding"] = ds.sharding_dict(case["bits2"][0], case["bits2"][1],
                                           case["bits2"][2], case["enc2"],
                                           case["enc2"])
        info2 = ds.make_info("uint8", 1, [s0, s1b])
        # the documented way to change the info of a dataset
        precomputed_io.get_IO_for_new_dataset(info2, acc, overwrite_info=True)
        for pos in order:
            acc.store_chunk(sc.payload(case["seed"] + 1, pos), "s1",
                            sc.coords_of(pos, case["cs"], s0["size"]))
        acc.close()
        with open(os.path.join(d, "info")) as f:
            disk = json.load(f)
        for sidx, key, seed in ((0, "s0", case["seed"]),
                                (1, "s1", case["seed"] + 1)):
            sh = disk["scales"][sidx]["sharding"]
            params = {k: sh[k] for k in (
                "minishard_bits", "shard_bits", "preshift_bits")}
            # optional fields, "raw" when left out
            params["minishard_index_encoding"] = sh.get(
                "minishard_index_encoding", "raw")
            params["data_encoding"] = sh.get("data_encoding", "raw")
            for pos in order:
                cid = sc.chunk_id(pos, case["grid"])
                try:
                    got = sharded_spec.read(os.path.join(d, key), params, cid,
                                            strict_gzip=False)
                except sharded_spec.ShardSpecError as exc:
                    got = exc
                if got != sc.payload(seed, pos):
                    ctx.fail("after the info was replaced through the same "
                             "accessor, chunk %s of scale %s (sharding %s in "
                             "the info on disk) is not retrievable by the "
                             "spec reader: %r" % (list(pos), key, params,
                                                  got if not isinstance(
                                                      got, bytes)
                                                  else got[:10]))
        return case["bits2"] != case["bits"]
    finally:
        ctx.rmtree(d)


def run_info_history(ctx, n):
    def check(ctx, case):
        nt = check_info_history(ctx, case)
        ctx.record(case, bool(nt), [case["strategy"]])
    ctx.run_hypothesis(info_history_cases(), check, n)


def replay(ctx, case):
    if "bits2" in case:
        return check_info_history(ctx, case)
    check_case(ctx, case)


SUBS = [Sub("write_spec_read", run, replay, quick=3000, thorough=300000),
        Sub("huge_ids", run_huge, replay, quick=400, thorough=64000),
        Sub("info_replaced", run_info_history, replay, quick=300,
            thorough=48000)]
