"""C18 - I/O failures and interrupted writes never yield silently wrong data."""
import errno
import json
import os
import shutil

import numpy as np
from hypothesis import strategies as st

from vlib import datasets as ds
from vlib import faultfs, httpd
from vlib.runner import HarnessError, Sub

PROPERTY = "C18"
JPEG_MAX, JPEG_MEAN = 24, 4.0
META = {
    "level": "fault_enumeration",
    "rule": ("Hypothesis draws scenarios (accessor kind and options, "
             "encoding, a dataset with several chunks already stored, one "
             "operation: store_chunk of a new chunk / store_file / "
             "fetch_chunk / fetch_file / file_exists / sharded write+close / "
             "overwrite / refused overwrite / HTTP fetch). For each scenario "
             "the I/O calls of the operation are traced once, then EVERY call "
             "index x errno in {ENOSPC, EACCES, EIO, and ENOENT for calls that "
             "name a path} (HTTP: connection reset "
             "at every request, and 403/404/500/503 replies) is injected and "
             "EVERY event boundary is a crash point (plus torn last writes). "
             "evaluations = traced scenarios + faulted executions + crash "
             "states examined. non-trivial = a scenario with an injection or "
             "crash point other than the first call of the operation; "
             "distinct_nontrivial counts distinct such scenarios plus "
             "distinct (accessor kind, operation, call site, errno / crash, "
             "outcome) fault sites."
             " Also: ENOENT for calls that name a path, 'partial write' (h"
             'alf of the data stored, then ENOSPC / a short count), a retr'
             'ied close(), HTTP 403/404/500/503 replies; cli_faults: every'
             ' I/O call of the documented command-line steps x errno, a su'
             'ccess status requires the fault-free destination.'
             " Round 12: http_faults with per-shard layouts, outdated legacy files and the statuses 400/401/410/429/502."
             " Round 13: write_handled_close - the caller handles the reported failure of one chunk, stores the others and closes; accepted chunks must be there, the refused one absent, complete or detectably invalid."
             " http_faults: after a reported failure the same accessor object is asked again without a fault (the stored bytes or an I/O error)."
             " Round 17: store_file_no_overwrite (a second, non-overwriting store of info / meta.json)."
             " Round 18: chunk coordinates as tuple / list / NumPy array."
             " Round 21: scale keys holding braces or a percent sign (they are interpolated into error messages)."),
    "trusted_base": ["vlib/faultfs.py: crash model = process killed between "
                     "(or inside) application-level write calls, earlier "
                     "closed files intact; self-checked on every scenario by "
                     "replaying the complete trace and comparing the trees"],
    "assumptions": ["kernel / power-loss reordering and fsync are out of "
                    "reach", "in-place overwrite of an existing name is "
                    "faulted only up to the call that opens the file for "
                    "writing (replacement is not atomic and not claimed to be)"],
}

ERRS = [("ENOSPC", errno.ENOSPC), ("EACCES", errno.EACCES),
        ("EIO", errno.EIO)]
# ENOENT is only plausible for calls that name a path which can vanish
# (a directory removed under the writer, a file removed under the reader);
# the is_file / exists probes answer False instead of raising it
ENOENT_KINDS = ("open", "makedirs", "mkdir", "rename", "replace", "unlink",
                "remove")


def errs_for(ckind):
    if ckind.split(":")[0] in ENOENT_KINDS:
        return ERRS + [("ENOENT", errno.ENOENT)]
    if ckind == "write":
        # a full device: half of the data is stored, then ENOSPC (or, for an
        # unbuffered file, a short count and no error)
        return ERRS + [("partial write", "SHORT")]
    return ERRS


@st.composite
def scenarios(draw):
    kind = draw(st.sampled_from(["file", "file", "file", "sharded"]))
    dtype = draw(st.sampled_from(["uint8", "uint16", "uint32", "uint64",
                                  "float32"]))
    channels = draw(st.sampled_from([1, 1, 3]))
    encs = ["raw"]
    if dtype in ("uint32", "uint64"):
        encs.append("compressed_segmentation")
    if dtype == "uint8" and channels in (1, 3):
        encs.append("jpeg")
    cs = draw(st.sampled_from([1, 2, 3, 4]))
    chunk = [cs, cs, cs] if kind == "sharded" else [
        cs, draw(st.sampled_from([1, 2, 4])), draw(st.sampled_from([1, 3]))]
    size = [draw(st.integers(1, 7)) for _ in range(3)]
    # keep the enumeration (calls x errnos x copies of the dataset) tractable:
    # at most 12 chunks per scale
    while ds.ceil_div(size[0], chunk[0]) * ds.ceil_div(size[1], chunk[1]) \
            * ds.ceil_div(size[2], chunk[2]) > 12:
        a = max(range(3), key=lambda i: ds.ceil_div(size[i], chunk[i]))
        size[a] = max(1, size[a] - chunk[a])
    if kind == "file":
        op = draw(st.sampled_from(["store_chunk", "store_chunk", "store_file",
                                   "fetch_chunk", "fetch_file", "exists",
                                   "exists_missing", "overwrite_chunk",
                                   "store_no_overwrite",
                                   "store_file_no_overwrite"]))
    else:
        op = draw(st.sampled_from(["write_close", "write_close",
                                   "write_handled_close",
                                   "fetch_chunk", "fetch_file"]))
    return {"kind": kind, "dtype": dtype, "channels": channels,
            "encoding": draw(st.sampled_from(encs)), "size": size,
            "chunk": chunk, "flat": draw(st.booleans()),
            "gzip": draw(st.booleans()),
            "strategy": draw(st.sampled_from(["on disk", "in memory"])),
            "bits": [draw(st.integers(0, 2)) for _ in range(3)],
            "shard_enc": draw(st.sampled_from(["raw", "gzip"])),
            "op": op, "target": draw(st.integers(0, 1000)),
            "seed": draw(st.integers(0, 2 ** 20))}


@st.composite
def large_scenarios(draw):
    """Payloads beyond typical buffer / preallocation / block thresholds."""
    sc = draw(scenarios())
    dtype = draw(st.sampled_from(["uint8", "uint16", "uint32", "float32"]))
    # encoded payloads just above 64 KiB (and a few of ~256 KiB)
    cs = {"uint8": 41, "uint16": 33, "uint32": 26, "float32": 26}[dtype]
    if draw(st.integers(0, 7)) == 0:
        cs = 64 if dtype == "uint8" else 40
    sc.update({"kind": "file", "dtype": dtype, "channels": 1,
               "encoding": draw(st.sampled_from(
                   ["raw", "raw", "compressed_segmentation"]))
               if dtype == "uint32" else "raw",
               "chunk": [cs, cs, cs],
               "size": [cs * 2 if draw(st.booleans()) else cs + 3, cs, cs],
               "op": draw(st.sampled_from(["store_chunk", "store_chunk",
                                           "overwrite_chunk", "fetch_chunk",
                                           "store_file"]))})
    return sc


# scale keys are free-form names: most are plain, some hold the characters
# that string formatting gives a meaning to (they end up in error messages)
KEY_STYLES = ("s%d", "s%d", "s%d", "{%d}um", "lvl_{%d}", "{}%d", "%%s%d")


def skey(sc, i):
    return KEY_STYLES[sc["seed"] % len(KEY_STYLES)] % i


def build_info(sc):
    sharding = ds.sharding_dict(sc["bits"][0], sc["bits"][1], sc["bits"][2],
                                sc["shard_enc"], sc["shard_enc"]) \
        if sc["kind"] == "sharded" else None
    scales = [ds.make_scale(skey(sc, 0), sc["size"], sc["chunk"], sc["encoding"],
                            block=[2, 2, 2], sharding=sharding)]
    if sc["kind"] == "sharded":
        s1 = json.loads(json.dumps(scales[0]))
        s1["key"] = skey(sc, 1)
        scales.append(s1)
    return ds.make_info(sc["dtype"], sc["channels"], scales)


def acc_kind(sc):
    if sc["kind"] == "sharded":
        return {"type": "sharded", "strategy": sc["strategy"]}
    return {"type": "file", "flat": sc["flat"], "gzip": sc["gzip"],
            "compresslevel": 1}


def content(sc, cc, salt):
    C = sc["channels"]
    shape = (C, cc[5] - cc[4], cc[3] - cc[2], cc[1] - cc[0])
    rng = np.random.default_rng(sc["seed"] * 131 + salt)
    dt = np.dtype(sc["dtype"])
    if sc["encoding"] == "jpeg":
        z, y, x = np.meshgrid(np.arange(shape[1]), np.arange(shape[2]),
                              np.arange(shape[3]), indexing="ij")
        base = x + 3 * y + 6 * z + int(rng.integers(0, 60))
        return np.stack([np.clip(base + 64 * c, 0, 255)
                         for c in range(C)]).astype(np.uint8)
    if dt.kind == "f":
        return rng.normal(0, 100, size=shape).astype(dt)
    hi = int(np.iinfo(dt).max)
    pal = rng.integers(1, hi, size=4, dtype=np.uint64, endpoint=True)
    return pal[rng.integers(0, 4, size=shape)].astype(dt)


def same(sc, got, want):
    if not isinstance(got, np.ndarray) or got.shape != want.shape or \
            got.dtype != want.dtype:
        return False
    if sc["encoding"] == "jpeg":
        d = np.abs(got.astype(int) - want.astype(int))
        return d.max() <= JPEG_MAX and d.mean() <= JPEG_MEAN
    return got.tobytes() == want.tobytes()


def DataAccessError_():
    from neuroglancer_scripts.accessor import DataAccessError
    return DataAccessError


class Scenario:
    """Dataset with some chunks stored + the model of its contents."""

    def __init__(self, ctx, sc):
        self.ctx = ctx
        self.sc = sc
        self.root = ctx.tmpdir("flt")
        self.base = os.path.join(self.root, "pristine")
        self.info = build_info(sc)
        self.grid = ds.chunk_coords_list(sc["size"], sc["chunk"])
        pio = ds.new_dataset(self.info, acc_kind(sc), self.base)
        self.model = {}
        if sc["kind"] == "sharded":
            stored = self.grid
        else:
            # leave at least one position free for the new chunk
            n = max(1, len(self.grid) - 1)
            stored = self.grid[:min(n, 4)]
            if len(self.grid) == 1:
                stored = []
        for i, cc in enumerate(stored):
            arr = content(sc, cc, i)
            pio.write_chunk(arr, skey(self.sc, 0), cc)
            self.model[(skey(self.sc, 0), cc)] = arr
        ds.close_accessor(pio)
        if sc["kind"] == "file":
            pio.accessor.store_file("meta.json", b'{"a": 1}',
                                    mime_type="application/json")
        free = [cc for cc in self.grid if (skey(self.sc, 0), cc) not in self.model]
        self.new_cc = free[sc["target"] % len(free)] if free else None
        self.new_arr = content(sc, self.new_cc, 99) if free else None

    def close(self):
        shutil.rmtree(self.root, ignore_errors=True)

    def open(self, path):
        """A writing/reading handle with the scenario's configuration."""
        from neuroglancer_scripts import precomputed_io
        acc = ds.open_accessor(acc_kind(self.sc), path)
        return precomputed_io.get_IO_for_existing_dataset(acc)

    def rep(self, cc):
        """The chunk coordinates as the caller happens to hold them: a tuple,
        a list, or a row of a NumPy integer array."""
        k = self.sc["seed"] % 3
        if k == 1:
            return list(cc)
        if k == 2:
            return np.array(cc, dtype=np.int64)
        return cc

    def operation(self, path):
        """Runs the scenario's operation against the dataset at `path`.
        Returns a description of what a correct completion means."""
        sc = self.sc
        op = sc["op"]
        self.last_pio = None
        pio = self.open(path)
        self.last_pio = pio
        if op == "store_chunk":
            if self.new_cc is None:
                return None
            pio.write_chunk(self.new_arr.copy(), skey(self.sc, 0), self.rep(self.new_cc))
            return ("stored", [(skey(self.sc, 0), self.new_cc, self.new_arr)])
        if op == "store_file_no_overwrite":
            # a second run of a command that writes the info (or another
            # file) without permission to overwrite: must raise
            # DataAccessError (with or without an injected fault) and leave
            # the existing file alone
            name = ("info", "meta.json")[sc["target"] % 2]
            pio.accessor.store_file(name, b'{"replaced": true}',
                                    mime_type="application/json")
            self.ctx.fail("store_file(%r) without overwrite replaced an "
                          "existing file [%s]" % (name, describe(sc)))
        if op in ("overwrite_chunk", "store_no_overwrite"):
            keys = sorted(self.model)
            if not keys:
                return None
            key, cc = keys[sc["target"] % len(keys)]
            arr = content(sc, cc, 555)
            self.touched = (key, cc)
            if op == "overwrite_chunk":
                pio.write_chunk(arr, key, self.rep(cc))
                return ("overwritten", (key, cc, arr))
            enc = pio._encoders[key]
            # must raise DataAccessError (with or without an injected fault)
            pio.accessor.store_chunk(enc.encode(arr), key, self.rep(cc),
                                     mime_type=enc.mime_type,
                                     overwrite=False)
            self.ctx.fail("store_chunk(overwrite=False) replaced an existing "
                          "chunk [%s]" % describe(sc))
        if op == "store_file":
            pio.accessor.store_file("mesh/5:0", b'{"fragments": ["a"]}',
                                    mime_type="application/json")
            big = 70000 if sc["chunk"][0] >= 32 else 200
            pio.accessor.store_file("mesh/frag", bytes(
                (i * 7 + 1) % 251 + 1 for i in range(big)),
                mime_type="application/octet-stream")
            return ("stored_files", None)
        if op == "fetch_chunk":
            keys = sorted(self.model)
            if not keys:
                return None
            key, cc = keys[sc["target"] % len(keys)]
            got = pio.read_chunk(key, self.rep(cc))
            return ("fetched", (key, cc, got))
        if op == "fetch_file":
            return ("fetched_file", pio.accessor.fetch_file("info"))
        if op == "exists":
            return ("exists", pio.accessor.file_exists("info"))
        if op == "exists_missing":
            return ("exists", pio.accessor.file_exists("no/such"))
        if op == "write_handled_close":
            # a caller that handles the failure of one chunk (logs it, goes
            # on with the others) and then closes the writer
            new = []
            order = list(self.grid)
            rng = np.random.default_rng(sc["seed"])
            rng.shuffle(order)
            self.accepted = []
            self.failed = []
            for i, cc in enumerate(order):
                arr = content(sc, cc, 1000 + i)
                new.append((skey(self.sc, 1), cc, arr))
                try:
                    pio.write_chunk(arr, skey(self.sc, 1), self.rep(cc))
                except (DataAccessError_(), OSError):
                    self.failed.append((skey(self.sc, 1), cc, arr))
                    continue
                self.accepted.append((skey(self.sc, 1), cc, arr))
            pio.accessor.close()
            return ("stored", new)
        if op == "write_close":
            new = []
            order = list(self.grid)
            rng = np.random.default_rng(sc["seed"])
            rng.shuffle(order)
            self.accepted = []
            for i, cc in enumerate(order):
                arr = content(sc, cc, 1000 + i)
                pio.write_chunk(arr, skey(self.sc, 1), self.rep(cc))
                new.append((skey(self.sc, 1), cc, arr))
                self.accepted.append((skey(self.sc, 1), cc, arr))
            pio.accessor.close()
            return ("stored", new)
        raise HarnessError("unknown op " + op)

    def check_previous(self, path, what, exempt=None):
        """Everything stored before the operation is still readable."""
        try:
            pio = ds.open_dataset(path)
        except Exception as exc:
            self.ctx.fail("%s: the dataset cannot be opened any more: %s %s"
                          % (what, type(exc).__name__, exc))
        if self.sc["kind"] == "file":
            try:
                meta = pio.accessor.fetch_file("meta.json")
            except Exception as exc:
                self.ctx.fail("%s: the file meta.json stored earlier is no "
                              "longer readable: %s %s [%s]" % (
                                  what, type(exc).__name__, exc,
                                  describe(self.sc)))
            if meta != b'{"a": 1}':
                self.ctx.fail("%s: the file meta.json stored earlier changed "
                              "[%s]" % (what, describe(self.sc)))
        for (key, cc), arr in self.model.items():
            if (key, cc) == exempt:
                continue
            try:
                got = pio.read_chunk(key, cc)
            except Exception as exc:
                self.ctx.fail("%s: previously stored chunk %s %s is no longer "
                              "readable: %s %s [%s]" % (
                                  what, key, cc, type(exc).__name__, exc,
                                  describe(self.sc)))
            if not same(self.sc, got, arr):
                self.ctx.fail("%s: previously stored chunk %s %s changed [%s]"
                              % (what, key, cc, describe(self.sc)))

    def check_new_after_crash(self, path, new, what):
        """Crash oracle: each new chunk is complete, absent or detectably
        invalid."""
        try:
            pio = ds.open_dataset(path)
        except Exception:
            return "unreadable"
        outcome = "absent"
        for key, cc, arr in new:
            try:
                got = pio.read_chunk(key, cc)
            except Exception:
                continue
            if not same(self.sc, got, arr):
                self.ctx.fail("%s: chunk %s %s decodes to WRONG voxel values "
                              "from the files left behind [%s]" % (
                                  what, key, cc, describe(self.sc)))
            outcome = "complete"
        return outcome


def describe(sc):
    return "%s %s x%d %s size %s chunk %s flat=%s gzip=%s op=%s" % (
        sc["kind"], sc["dtype"], sc["channels"], sc["encoding"], sc["size"],
        sc["chunk"], sc["flat"], sc["gzip"], sc["op"])


def check_scenario(ctx, sc):
    from neuroglancer_scripts.accessor import DataAccessError
    S = Scenario(ctx, sc)
    stats = {"faults": 0, "crashes": 0, "sites": set()}
    try:
        tmp = os.environ.get("TMPDIR", "/tmp")
        # ---- 1. trace ---------------------------------------------------------
        work = os.path.join(S.root, "work")
        shutil.copytree(S.base, work)
        with faultfs.Layer([work, tmp], "trace") as L:
            try:
                expected = S.operation(work)
            except DataAccessError:
                if sc["op"] not in ("store_no_overwrite",
                                    "store_file_no_overwrite"):
                    raise
                expected = ("refused", None)
        if expected is None:
            return None
        calls, events = list(L.calls), list(L.events)
        if not calls:
            raise HarnessError("operation %s made no interposed call" %
                               sc["op"])
        # self-check of the layer: full replay == real result
        re_dir = os.path.join(S.root, "replay")
        faultfs.replay_events(S.base, re_dir, events, work)
        if ds.tree_snapshot(re_dir) != ds.tree_snapshot(work):
            a, b = ds.tree_snapshot(re_dir), ds.tree_snapshot(work)
            # gzip members carry a time stamp: compare decoded content then
            diff = sorted(set(a) ^ set(b))
            if diff:
                raise HarnessError("replaying the complete trace does not "
                                   "reproduce the tree: %s" % diff[:4])
        # an in-place overwrite destroys the old content once the file has
        # been opened for writing (not atomic, and not claimed to be): from
        # that call on, the overwritten chunk itself is exempt
        first_wopen = None
        for i, (ckind, cpath) in enumerate(calls):
            if ckind.startswith("open:") and ("w" in ckind or "x" in ckind):
                first_wopen = i
                break
        if sc["op"] in ("store_no_overwrite", "store_file_no_overwrite"):
            S.check_previous(work, "refused store without overwrite")
        # ---- 2. every call x errno ---------------------------------------------
        stride = max(1, len(calls) // 150)
        if stride > 1:
            ctx.count("scenarios_with_sampled_calls")
        for k, (ckind, cpath) in enumerate(calls):
            if k % stride:
                continue
            for ename, eno in errs_for(ckind):
                w = os.path.join(S.root, "w")
                if os.path.exists(w):
                    shutil.rmtree(w)
                shutil.copytree(S.base, w)
                exc = None
                with faultfs.Layer([w, tmp], "fail", k, eno) as L2:
                    try:
                        S.operation(w)
                    except Exception as e:     # noqa
                        exc = e
                if not L2.fired:
                    continue
                stats["faults"] += 1
                stats["sites"].add((sc["kind"], sc["op"], ckind.split(":")[0],
                                    ename, k > 0))
                site = "call %d/%d (%s %s)" % (
                    k, len(calls), ckind, os.path.relpath(cpath, w)
                    if cpath.startswith(w) else os.path.basename(cpath))
                if exc is None and sc["op"] == "write_handled_close" and \
                        S.failed:
                    # the failure was reported (by the write_chunk call the
                    # caller handled) and close() returned normally: every
                    # chunk that write_chunk accepted must be there, and the
                    # refused one absent, complete or detectably invalid
                    pio_chk = ds.open_dataset(w)
                    for key, cc, arr in list(S.accepted):
                        try:
                            got = pio_chk.read_chunk(key, cc)
                            okc = same(sc, got, arr)
                        except Exception:
                            okc = False
                        if not okc:
                            ctx.fail("%s at %s: write_chunk reported the "
                                     "failure for chunk %s, the caller went "
                                     "on and close() returned normally, but "
                                     "chunk %s %s, which write_chunk had "
                                     "accepted, is missing or wrong [%s]" % (
                                         ename, site, S.failed[0][1], key,
                                         cc, describe(sc)))
                    for key, cc, arr in S.failed:
                        try:
                            got = pio_chk.read_chunk(key, cc)
                        except Exception:
                            continue
                        if not same(sc, got, arr):
                            ctx.fail("%s at %s: chunk %s %s, whose write was "
                                     "refused, decodes to WRONG voxel values "
                                     "after close() [%s]" % (
                                         ename, site, key, cc, describe(sc)))
                    S.check_previous(w, "%s at %s" % (ename, site))
                    continue
                if exc is None:
                    ctx.fail("%s injected at %s: the operation returned "
                             "normally as if it had succeeded [%s]" % (
                                 ename, site, describe(sc)))
                if not isinstance(exc, (DataAccessError, OSError)):
                    ctx.fail("%s injected at %s surfaces as %s (%s) instead "
                             "of a data-access / I/O error [%s]" % (
                                 ename, site, type(exc).__name__,
                                 str(exc)[:120], describe(sc)))
                if sc["op"] == "write_close" and S.last_pio is not None \
                        and len(getattr(S, "accepted", [])) == len(S.grid):
                    # (only when the failure happened inside close() itself,
                    # i.e. every chunk had been accepted: the state of an
                    # accessor after a failed store_chunk is not specified)
                    # a retried close() (explicit, or the exit handler) must
                    # not claim success while chunks are missing
                    try:
                        S.last_pio.accessor.close()
                        retried = True
                    except Exception:
                        retried = False
                    if retried:
                        pio_chk = ds.open_dataset(w)
                        for key, cc, arr in list(S.accepted):
                            try:
                                got = pio_chk.read_chunk(key, cc)
                                okc = same(sc, got, arr)
                            except Exception:
                                okc = False
                            if not okc:
                                ctx.fail("%s at %s: the operation failed, a "
                                         "later close() on the same accessor "
                                         "returned normally, but chunk %s %s, "
                                         "which store_chunk had accepted, is "
                                         "missing or wrong [%s]" % (
                                             ename, site, key, cc,
                                             describe(sc)))
                exempt = None
                if sc["op"] == "overwrite_chunk" and first_wopen is not None \
                        and k > first_wopen:
                    exempt = getattr(S, "touched", None)
                S.check_previous(w, "%s at %s" % (ename, site), exempt)
        # ---- 3. every crash point ----------------------------------------------
        if expected[0] == "stored":
            new = expected[1]
            cstride = max(1, len(events) // 200)
            for k in range(0, len(events) + 1):
                if k % cstride and k != len(events):
                    continue
                prefix = events[:k]
                torn_list = [None]
                if prefix and prefix[-1][0] == "write" and \
                        len(prefix[-1][3]) > 1:
                    n = len(prefix[-1][3])
                    torn_list += sorted({1, n // 2, n - 1}
                                        | set(range(16, n, 16)) if n <= 256
                                        else {1, n // 2, n - 1})
                for torn in torn_list:
                    cdir = os.path.join(S.root, "crash")
                    faultfs.replay_events(S.base, cdir, prefix, work, torn)
                    what = "interrupted after event %d/%d%s" % (
                        k, len(events), "" if torn is None
                        else " (last write torn at byte %d)" % torn)
                    S.check_previous(cdir, what)
                    out = S.check_new_after_crash(cdir, new, what)
                    stats["crashes"] += 1
                    stats["sites"].add((sc["kind"], sc["op"], "crash",
                                        prefix[-1][0] if prefix else "start",
                                        torn is not None, out, k > 0))
        return stats
    finally:
        S.close()


def run_large(ctx, n):
    def check(ctx, sc):
        stats = check_scenario(ctx, sc)
        if stats is None:
            return
        ctx.count("injections", stats["faults"])
        ctx.count("crash_points", stats["crashes"])
        ctx.evaluations += stats["faults"] + stats["crashes"]
        ctx.record(sc, stats["faults"] + stats["crashes"] > 1,
                   ["large", "op." + sc["op"], "enc." + sc["encoding"],
                    "gzip" if sc["gzip"] else "nogzip"])
    ctx.run_hypothesis(large_scenarios(), check, n)


def run(ctx, n):
    def check(ctx, sc):
        stats = check_scenario(ctx, sc)
        if stats is None:
            return
        ctx.count("injections", stats["faults"])
        ctx.count("crash_points", stats["crashes"])
        ctx.evaluations += stats["faults"] + stats["crashes"]
        for site in stats["sites"]:
            ctx.nt.add(hash(("site",) + tuple(map(str, site))))
        ctx.record(sc, stats["faults"] + stats["crashes"] > 1,
                   [sc["kind"], "op." + sc["op"], "enc." + sc["encoding"]])
    ctx.run_hypothesis(scenarios(), check, n)


# ---------------------------------------------------------------------------
# HTTP: connection failures at every request
# ---------------------------------------------------------------------------
@st.composite
def http_scenarios(draw):
    from checks import shard_common as scm
    c = draw(scm.shard_cases(max_grid=3, min_chunks=1))
    # (legacy_some / stale_legacy: some shards in the legacy layout; current
    # .shard files with left-over, outdated .index / .data files beside them)
    c["kind"] = draw(st.sampled_from(["plain", "shard", "legacy",
                                      "legacy_some", "stale_legacy"]))
    c["target"] = draw(st.integers(0, 100))
    return c


def check_http(ctx, case):
    from checks import c14_http, shard_common as scm
    from neuroglancer_scripts import accessor
    if not case["order"]:
        return None
    root = ctx.tmpdir("hflt")
    try:
        c2 = dict(case, kind={"plain": "plain_flat"}.get(case["kind"],
                                                         case["kind"]),
                  gzip=True)
        d, truth = c14_http.build_dataset(c2, root)
        size = scm.scale_info(case)["size"]
        pos = tuple(case["order"][case["target"] % len(case["order"])])
        cc = scm.coords_of(pos, case["cs"], size)
        n = 0
        with httpd.StaticServer(root, rewrite=False) as srv:
            url = srv.url + "ds"

            held = {}

            def operation():
                acc = accessor.get_accessor_for_url(url)
                held["acc"] = acc
                return acc.fetch_chunk(scm.KEY, cc)

            def retry_same_accessor(what):
                """A caller that handles the failure and asks the SAME
                accessor object again, once the trouble is over: the stored
                bytes or an I/O error, never other bytes or an internal
                error."""
                try:
                    again = held["acc"].fetch_chunk(scm.KEY, cc)
                except ok_types:
                    return
                except Exception as e:    # noqa
                    ctx.fail("%s, then the same accessor asked again without "
                             "any fault: %s (%s) instead of the chunk or a "
                             "data-access / I/O error (%s dataset)" % (
                                 what, type(e).__name__, str(e)[:80],
                                 case["kind"]))
                if again != truth[pos]:
                    ctx.fail("%s, then the same accessor asked again without "
                             "any fault: fetch_chunk returned %d bytes that "
                             "differ from the stored ones (%s dataset)" % (
                                 what, len(again), case["kind"]))
            ok_types = (accessor.DataAccessError,) if \
                case["kind"] == "plain" else (accessor.DataAccessError,
                                              OSError)
            with faultfs.Layer([root], "trace", with_requests=True) as L:
                good = operation()
            if good != truth[pos]:
                ctx.fail("fault-free HTTP fetch is wrong")
            calls = [c for c in L.calls if c[0] in ("GET", "HEAD")]
            idxs = [i for i, c in enumerate(L.calls)
                    if c[0] in ("GET", "HEAD")]
            for k in idxs:
                exc = None
                got = None
                with faultfs.Layer([root], "fail", k, errno.ECONNRESET,
                                   with_requests=True) as L2:
                    try:
                        got = operation()
                    except Exception as e:    # noqa
                        exc = e
                if not L2.fired:
                    continue
                n += 1
                if exc is None:
                    if got != truth[pos]:
                        ctx.fail("connection reset at request %d (%s %s): "
                                 "fetch_chunk returned %d bytes that differ "
                                 "from the stored ones (%s dataset)" % (
                                     k, L.calls[k][0], L.calls[k][1],
                                     len(got), case["kind"]))
                    continue
                ok_types = (accessor.DataAccessError,) if \
                    case["kind"] == "plain" else (accessor.DataAccessError,
                                                  OSError)
                if not isinstance(exc, ok_types):
                    ctx.fail("connection reset at request %d (%s %s) "
                             "surfaces as %s: %s (%s dataset)" % (
                                 k, L.calls[k][0], L.calls[k][1],
                                 type(exc).__name__, str(exc)[:100],
                                 case["kind"]))
                retry_same_accessor("connection reset at request %d (%s %s)"
                                    % (k, L.calls[k][0], L.calls[k][1]))
            # HTTP error statuses at every request of the operation
            nreq = len(idxs)
            for k in range(nreq):
                for status in ("403", "404", "500", "503", "401", "429",
                               "410", "400", "502"):
                    if status == "404" and case["kind"] == "stale_legacy":
                        # "not found" for the .shard file legitimately sends
                        # the reader to the (outdated) legacy files
                        continue
                    srv.reset_count()
                    srv.set_faults([httpd.Fault(k, status)])
                    exc = None
                    got = None
                    try:
                        got = operation()
                    except Exception as e:    # noqa
                        exc = e
                    finally:
                        srv.set_faults([])
                    n += 1
                    if exc is None:
                        if got != truth[pos]:
                            ctx.fail("HTTP %s at request %d: fetch_chunk "
                                     "returned wrong bytes (%s dataset)" % (
                                         status, k, case["kind"]))
                        continue
                    if isinstance(exc, ok_types) and status in (
                            "403", "404", "500", "429"):
                        retry_same_accessor("HTTP %s at request %d (%s %s)" % (
                            status, k, calls[k][0],
                            calls[k][1].split("/ds/")[-1]))
                    if not isinstance(exc, ok_types):
                        ctx.fail("HTTP %s at request %d of %d (%s %s) "
                                 "surfaces as %s (%s) instead of a data-"
                                 "access / I/O error (%s dataset)" % (
                                     status, k, nreq, calls[k][0],
                                     calls[k][1].split("/ds/")[-1],
                                     type(exc).__name__, str(exc)[:80],
                                     case["kind"]))
        return n
    finally:
        ctx.rmtree(root)


def run_http(ctx, n):
    def check(ctx, case):
        k = check_http(ctx, case)
        if k is None:
            return
        ctx.count("injections", k)
        ctx.evaluations += k
        ctx.record(case, k > 1, ["kind." + case["kind"]])
    ctx.run_hypothesis(http_scenarios(), check, n)


# ---------------------------------------------------------------------------
# command-line steps: a failed store must never end in a success status with
# an incomplete / different result
# ---------------------------------------------------------------------------
CLI_STEPS = ["generate_info", "scales_info", "convert", "compute"]


@st.composite
def cli_scenarios(draw):
    return {"cli_step": draw(st.sampled_from(CLI_STEPS)),
            "stored": draw(st.sampled_from(["uint8", "uint16", "float32",
                                            "float64", "int16"])),
            "shape": [draw(st.integers(1, 5)) for _ in range(3)],
            "flat": draw(st.booleans()),
            "seed": draw(st.integers(0, 10 ** 6))}


def check_cli(ctx, sc):
    """Runs the documented step-by-step workflow up to the chosen step
    without faults, then injects every errno at every I/O call of that step.
    If the command then reports success, the destination must be what the
    fault-free run produces."""
    from neuroglancer_scripts.scripts import (compute_scales,
                                              generate_scales_info,
                                              volume_to_precomputed)
    from vlib import nifti
    root = ctx.tmpdir("cli")
    try:
        rng = np.random.default_rng(sc["seed"])
        dt = np.dtype(sc["stored"])
        vol = (rng.integers(0, 100, size=sc["shape"])).astype(dt)
        src = os.path.join(root, "in")
        os.makedirs(src)
        path = os.path.join(src, "vol.nii")
        nifti.write_nifti(path, np.asfortranarray(vol), np.eye(4))
        base = os.path.join(root, "base")
        os.makedirs(base)
        common = ["--no-gzip"] + (["--flat"] if sc["flat"] else [])

        def step(name, dest):
            if name == "generate_info":
                return volume_to_precomputed.main(
                    ["volume-to-precomputed", path, dest, "--generate-info"])
            if name == "scales_info":
                return generate_scales_info.main(
                    ["generate-scales-info",
                     os.path.join(dest, "info_fullres.json"), dest,
                     "--target-chunk-size", "2"])
            if name == "convert":
                return volume_to_precomputed.main(
                    ["volume-to-precomputed", path, dest] + common)
            return compute_scales.main(["compute-scales", dest] + common)

        def run(name, dest):
            try:
                with np.errstate(all="ignore"):
                    rc = step(name, dest)
                return rc or 0, None
            except SystemExit as exc:
                return exc.code if isinstance(exc.code, int) else 1, None
            except Exception as exc:         # noqa
                return 1, exc
        k_step = CLI_STEPS.index(sc["cli_step"])
        for name in CLI_STEPS[:k_step]:
            rc, exc = run(name, base)
            if rc not in (0, 4):
                raise HarnessError("fault-free step %s failed: %r %r" % (
                    name, rc, exc))
        name = sc["cli_step"]
        good = os.path.join(root, "good")
        shutil.copytree(base, good)
        with faultfs.Layer([good], "trace") as L:
            rc, exc = run(name, good)
        if rc not in (0, 4):
            raise HarnessError("fault-free step %s failed: %r %r" % (
                name, rc, exc))
        def products(tree):
            # transform.json is a by-product that --generate-info is not asked
            # for (its help text only promises info_fullres.json) and whose
            # write failure the tool deliberately only logs
            return {k: v for k, v in tree.items() if k != "transform.json"}
        want = products(ds.tree_snapshot(good))
        calls = L.calls
        stride = max(1, len(calls) // 60)
        n = 0
        for k, (ckind, cpath) in enumerate(calls):
            if k % stride:
                continue
            for ename, eno in errs_for(ckind)[:2 if stride > 1 else 4]:
                w = os.path.join(root, "w")
                if os.path.exists(w):
                    shutil.rmtree(w)
                shutil.copytree(base, w)
                with faultfs.Layer([w], "fail", k, eno) as L2:
                    rc, exc = run(name, w)
                if not L2.fired:
                    continue
                n += 1
                if rc in (0, 4):
                    got = products(ds.tree_snapshot(w))
                    if got != want:
                        diff = sorted(set(want.items()) ^ set(got.items()))
                        ctx.fail("%s injected at call %d/%d (%s %s) of `%s`: "
                                 "the command reported success (status %r) "
                                 "but the destination differs from a fault-"
                                 "free run: %s [stored %s shape %s]" % (
                                     ename, k, len(calls), ckind,
                                     os.path.relpath(cpath, good), name, rc,
                                     [d_[0] for d_ in diff[:4]],
                                     sc["stored"], sc["shape"]))
        return n
    finally:
        ctx.rmtree(root)


def run_cli(ctx, n):
    def check(ctx, sc):
        k = check_cli(ctx, sc)
        ctx.count("injections", k)
        ctx.evaluations += k
        ctx.record(sc, k > 1, ["step." + sc["cli_step"],
                               "stored." + sc["stored"]])
    ctx.run_hypothesis(cli_scenarios(), check, n)


def replay(ctx, case):
    if "cli_step" in case:
        return check_cli(ctx, case)
    if "op" in case:
        check_scenario(ctx, case)
    else:
        check_http(ctx, case)


SUBS = [
    Sub("fs_faults", run, replay, quick=140, thorough=6000, min_per_shard=4),
    Sub("fs_large", run_large, replay, quick=42, thorough=1500,
        min_per_shard=2),
    Sub("http_faults", run_http, replay, quick=40, thorough=2000,
        min_per_shard=4),
    Sub("cli_faults", run_cli, replay, quick=40, thorough=1500,
        min_per_shard=4),
]
