"""C17 - mesh files follow the formats Neuroglancer reads and survive a round
trip."""
import collections
import csv
import gzip
import io
import json
import os
import struct

import numpy as np
from hypothesis import strategies as st

from vlib import datasets as ds
from vlib.refs import mesh_spec, vtk_grammar
from vlib.runner import Sub

PROPERTY = "C17"
META = {
    "level": "exploration",
    "rule": ("Hypothesis draws meshes (0..12 vertices, 0..16 triangles, "
             "indices at the bounds), byte strings / mutations for the "
             "reader, affines with det>0, <0 and ~0, attribute sets, CSV "
             "label tables; non-trivial = mesh with >= 2 triangles, or a "
             "mutated input that passes the reader's length checks, or a "
             "mirroring transform; distinct by the whole case."
             ' Also: vertex / triangle arrays in six memory layouts, GIfTI'
             ' container variants (ASCII / Base64 / GZip, row / column maj'
             'or, little / big endian), labels over the whole uint64 range'
             '; reader_big: more than a million triangles with one out-of-'
             'range index at the head / middle / tail / end.'
             " Round 12: GIfTI point sets stored as INT32 / UINT8 (coordinates of several metres)."
             " Round 18: link-mesh-fragments run again with a corrected table."
             " Round 19: vertex attributes as list / tuple / generator / iterator."
             " Round 21: VTK export of arrays in other memory layouts and of the arrays affine_transform_mesh returns."),
    "trusted_base": ["vlib/refs/mesh_spec.py (struct-based, from the format "
                     "text)", "vlib/refs/vtk_grammar.py (from memory of "
                     "neuroglancer's vtk/parse.ts)", "nibabel GIFTI writer"],
}

coord = st.one_of(
    st.floats(-1000, 1000, width=32),
    st.sampled_from([0.0, 1.0, -1.0, 0.5, 1e-3, 123.456, -77.25, 1e6]),
    st.integers(-50, 50).map(float))
coord64 = st.one_of(coord, st.floats(-1e5, 1e5))


@st.composite
def meshes(draw, min_vertices=0, max_vertices=12, wide=False):
    n = draw(st.integers(min_vertices, max_vertices))
    c = coord64 if wide else coord
    verts = [[draw(c), draw(c), draw(c)] for _ in range(n)]
    if n == 0:
        tris = []
    else:
        idx = st.one_of(st.integers(0, n - 1), st.sampled_from([0, n - 1]))
        tris = draw(st.lists(st.tuples(idx, idx, idx).map(list), max_size=16))
    return {"vertices": verts, "triangles": tris}


def arrays(mesh, vdtype="float32", tdtype="uint32"):
    v = np.array(mesh["vertices"], dtype=vdtype).reshape(-1, 3)
    t = np.array(mesh["triangles"], dtype=tdtype).reshape(-1, 3)
    return v, t


# ---- 1+2: layout and round trip -------------------------------------------
@st.composite
def layout_cases(draw):
    mesh = draw(meshes(wide=True))
    n = len(mesh["vertices"])
    tds = ["uint32", "uint16"] + (["uint8"] if n <= 255 else [])
    return {"mesh": mesh, "vdtype": draw(st.sampled_from(
        ["float32", "float64"])), "tdtype": draw(st.sampled_from(tds)),
        "gzip": draw(st.booleans()),
        "layout": draw(st.one_of(st.none(), st.tuples(
            st.sampled_from(ds.LAYOUTS), st.sampled_from(ds.LAYOUTS)).map(
                list)))}


def big_mesh(n, m, seed):
    rng = np.random.default_rng(seed)
    verts = rng.normal(0, 100, size=(n, 3)).astype(np.float32)
    tris = rng.integers(0, n, size=(m, 3))
    tris[0] = [n - 1, 0, n - 1]
    return {"vertices": verts.astype(float).tolist(),
            "triangles": tris.tolist()}


def check_layout(ctx, case):
    from neuroglancer_scripts import mesh as M
    if "big" in case:
        case = dict(case, mesh=big_mesh(*case["big"]))
    v, t = arrays(case["mesh"], case["vdtype"], case["tdtype"])
    # the arrays as other code hands them over: column-major (a GIfTI with
    # ColumnMajorOrder, np.vstack([...]).T), big-endian, read-only, views
    lay = case.get("layout")
    if lay:
        v = ds.laid_out(v, lay[0]) if len(v) else v
        t = ds.laid_out(t, lay[1]) if len(t) else t
    bio = io.BytesIO()
    if case["gzip"]:
        with gzip.GzipFile(fileobj=bio, mode="wb") as f:
            M.save_mesh_as_precomputed(f, v, t)
        data = gzip.decompress(bio.getvalue())
    else:
        M.save_mesh_as_precomputed(bio, v, t)
        data = bio.getvalue()
    # the same arrays are written a second time (a mesh saved under two
    # names): same bytes, and the arrays are as they were
    bio2 = io.BytesIO()
    M.save_mesh_as_precomputed(bio2, v, t)
    if bio2.getvalue() != data:
        ctx.fail("writing the same arrays a second time gives other bytes")
    try:
        n, pv, pt = mesh_spec.parse(data)
    except mesh_spec.MeshSpecError as exc:
        ctx.fail("written mesh does not follow the format: %s" % exc)
    ev = v.astype("<f4")
    if n != len(v) or not np.array_equal(
            np.array(pv, dtype="<f4").reshape(-1, 3).view("<u4"),
            ev.view("<u4")):
        ctx.fail("vertex block differs from float32(vertices): %r vs %r" % (
            pv[:3], ev[:3].tolist()))
    if [list(x) for x in pt] != t.astype(np.int64).tolist():
        ctx.fail("triangle block differs: %r vs %r" % (pt[:3],
                                                     t[:3].tolist()))
    # round trip through the package's reader
    if case["gzip"]:
        f = gzip.GzipFile(fileobj=io.BytesIO(bio.getvalue()), mode="rb")
    else:
        f = io.BytesIO(data)
    try:
        rv, rt = M.read_precomputed_mesh(f)
    except Exception as exc:
        ctx.fail("reader rejected the writer's output: %s %s" % (
            type(exc).__name__, exc))
    if rv.shape != ev.shape or not np.array_equal(rv.view("<u4"),
                                                  ev.view("<u4")):
        ctx.fail("round trip changed the vertices")
    if rt.shape != t.shape or not np.array_equal(rt, t):
        ctx.fail("round trip changed the triangles")
    if rv.dtype != np.dtype("<f4") or rt.dtype != np.dtype("<u4"):
        ctx.fail("reader returned dtypes %s/%s" % (rv.dtype, rt.dtype))


def run_layout_large(ctx, n):
    """Meshes with thousands of vertices / triangles (beyond 64 KiB of
    triangle data)."""
    strat = st.builds(
        lambda nv, nt, seed, vd, gz: {
            "big": [nv, nt, seed], "vdtype": vd,
            "tdtype": "uint32" if nv > 65535 else "uint16"
            if seed % 2 else "uint32", "gzip": gz},
        st.sampled_from([300, 2731, 5462, 40000, 70000]),
        st.sampled_from([5461, 5462, 5463, 19602, 40000]),
        st.integers(0, 1000), st.sampled_from(["float32", "float64"]),
        st.booleans())

    def check(ctx, case):
        check_layout(ctx, case)
        ctx.record(case, True, ["large"])
    ctx.run_hypothesis(strat, check, n)


def run_layout(ctx, n):
    def check(ctx, case):
        check_layout(ctx, case)
        ctx.record(case, len(case["mesh"]["triangles"]) >= 2,
                   [case["vdtype"], case["tdtype"],
                    "gzip" if case["gzip"] else "plain",
                    "empty" if not case["mesh"]["vertices"] else "nonempty",
                    "layout." + ("/".join(case["layout"])
                                 if case.get("layout") else "c/c")])
    ctx.run_hypothesis(layout_cases(), check, n)


# ---- 3: reader robustness --------------------------------------------------
@st.composite
def reader_cases(draw):
    kind = draw(st.sampled_from(["random", "mutated", "mutated", "index",
                                 "truncate"]))
    if kind == "random":
        return {"kind": kind, "data": draw(st.binary(max_size=64))}
    mesh = draw(meshes(min_vertices=1))
    v, t = arrays(mesh)
    n = len(v)
    data = bytearray(struct.pack("<I", n) + v.astype("<f4").tobytes()
                     + t.astype("<u4").tobytes())
    if kind == "truncate":
        k = draw(st.integers(0, len(data)))
        return {"kind": kind, "data": bytes(data[:k])}
    if kind == "index" and len(t):
        i = draw(st.integers(0, 3 * len(t) - 1))
        val = draw(st.sampled_from([n - 1, n, n + 1, 2 ** 32 - 1, 0]))
        struct.pack_into("<I", data, 4 + 12 * n + 4 * i, val)
        return {"kind": kind, "data": bytes(data)}
    ops = draw(st.lists(st.sampled_from(["count", "flip", "extend", "cut"]),
                        min_size=1, max_size=3))
    for op in ops:
        if op == "count" and len(data) >= 4:
            struct.pack_into("<I", data, 0, draw(st.sampled_from(
                [0, 1, max(0, n - 1), n + 1, 2 * n, 2 ** 32 - 1, 2 ** 31])))
        elif op == "flip" and data:
            i = draw(st.integers(0, len(data) - 1))
            data[i] = draw(st.integers(0, 255))
        elif op == "extend":
            data += draw(st.binary(min_size=1, max_size=13))
        elif op == "cut" and data:
            del data[draw(st.integers(0, len(data) - 1)):]
    return {"kind": "mutated", "data": bytes(data)}


def check_reader(ctx, case):
    from neuroglancer_scripts import mesh as M
    data = case["data"]
    try:
        spec = mesh_spec.parse(data)
    except mesh_spec.MeshSpecError:
        spec = None
    try:
        rv, rt = M.read_precomputed_mesh(io.BytesIO(data))
    except M.InvalidMeshDataError:
        if spec is not None:
            ctx.fail("valid mesh data (%d bytes, %d vertices) rejected" % (
                len(data), spec[0]))
        return False
    except Exception as exc:
        ctx.fail("reader raised %s instead of InvalidMeshDataError on %d "
                 "bytes: %s" % (type(exc).__name__, len(data), exc))
    n = len(rv)
    if rt.size and int(rt.max()) >= n:
        ctx.fail("reader accepted a triangle referencing vertex %d of a mesh "
                 "with %d vertices" % (int(rt.max()), n))
    if spec is None:
        ctx.fail("reader accepted data that the format parser rejects (%d "
                 "bytes)" % len(data))
    return True


def check_reader_big(ctx, case):
    """Files of several MiB (more than a million triangles) with ONE
    out-of-range triangle index at a chosen relative position (head, middle,
    tail, last) - and the untouched file, which must be accepted."""
    from neuroglancer_scripts import mesh as M
    nv, nt, where = case["nv"], case["nt"], case["where"]
    rng = np.random.default_rng(case["seed"])
    verts = rng.normal(0, 10, size=(nv, 3)).astype("<f4")
    tris = rng.integers(0, nv, size=(nt, 3)).astype("<u4")
    if where is not None:
        k = min(nt * 3 - 1, int(where * nt * 3))
        tris.reshape(-1)[k] = nv + case["seed"] % 3
    data = struct.pack("<I", nv) + verts.tobytes() + tris.tobytes()
    try:
        rv, rt = M.read_precomputed_mesh(io.BytesIO(data))
    except M.InvalidMeshDataError:
        if where is None:
            ctx.fail("valid mesh of %d triangles (%d MiB) rejected" % (
                nt, len(data) >> 20))
        return
    except Exception as exc:
        ctx.fail("reader raised %s instead of InvalidMeshDataError on a %d "
                 "MiB file: %s" % (type(exc).__name__, len(data) >> 20, exc))
    if where is not None:
        ctx.fail("reader accepted a mesh of %d triangles (%d MiB) whose "
                 "triangle index number %d (relative position %.2f) is %d, "
                 "with %d vertices" % (nt, len(data) >> 20, k, where,
                                       int(tris.reshape(-1)[k]), nv))
    if not np.array_equal(rt, tris) or not np.array_equal(
            rv.view("<u4"), verts.view("<u4")):
        ctx.fail("large valid mesh read back differently")


def run_reader_big(ctx, n):
    wheres = [None, 0.0, 0.5, 0.97, 1.0, 0.26, 0.76]
    sizes = [(50000, 1200000), (300, 1048577), (70000, 2200000)]
    k = 0
    for nv, nt in sizes[:max(1, n)]:
        for where in wheres:
            case = {"big_reader": True, "nv": nv, "nt": nt, "where": where,
                    "seed": ctx.seed + k}
            k += 1
            try:
                check_reader_big(ctx, case)
            except AssertionError as exc:
                if type(exc).__name__ != "Violation":
                    raise
                ctx.violations.append({"sub": "reader_big", "case": case,
                                       "message": str(exc)})
                return
            ctx.record(case, True, ["invalid" if where is not None
                                    else "valid"])


def run_reader(ctx, n):
    def check(ctx, case):
        deep = check_reader(ctx, case)
        ctx.record(case, case["kind"] != "random" and (
            deep or len(case["data"]) >= 16), [case["kind"],
                                               "accepted" if deep
                                               else "rejected"])
    ctx.run_hypothesis(reader_cases(), check, n)


# ---- 4: affine transform ---------------------------------------------------
@st.composite
def affines(draw, allow_singular=True):
    q = np.array([draw(st.floats(-1, 1)) for _ in range(4)])
    if np.linalg.norm(q) < 1e-3:
        q = np.array([1.0, 0, 0, 0])
    w, x, y, z = q / np.linalg.norm(q)
    R = np.array([[1 - 2 * (y * y + z * z), 2 * (x * y - z * w),
                   2 * (x * z + y * w)],
                  [2 * (x * y + z * w), 1 - 2 * (x * x + z * z),
                   2 * (y * z - x * w)],
                  [2 * (x * z - y * w), 2 * (y * z + x * w),
                   1 - 2 * (x * x + y * y)]])
    scales = [draw(st.sampled_from([1.0, -1.0, 0.5, 2.0, -3.0, 0.001, 50.0]))
              for _ in range(3)]
    kind = draw(st.sampled_from(["regular"] * 6 + ["near_identity"] + (
        ["singular"] if allow_singular else [])))
    if kind == "singular":
        scales[draw(st.integers(0, 2))] = draw(st.sampled_from([0.0, 1e-14]))
    shear = np.eye(3)
    shear[0, 1] = draw(st.sampled_from([0.0, 0.0, 0.3, -0.2]))
    A = R @ shear @ np.diag(scales)
    t = [draw(st.floats(-1000, 1000)) for _ in range(3)]
    if kind == "near_identity":
        # a transform that is almost, but not, the identity (a registration
        # refinement, a unit correction of a few parts per million)
        eps = draw(st.sampled_from([4e-6, 1e-6, 8e-6, 3e-7, 9.9e-6]))
        A = np.eye(3) + eps * np.array(
            [[draw(st.sampled_from([1.0, -1.0, 0.0, 0.5])) for _ in range(3)]
             for _ in range(3)])
        if draw(st.booleans()):
            # a pure rescaling (off-diagonal terms exactly zero)
            A = np.diag(np.diag(A))
            if np.allclose(A, np.eye(3), rtol=0, atol=1e-9):
                A[0, 0] = 1 + eps
        t = [draw(st.sampled_from([0.0, 0.0, 1e-9, -5e-9]))
             for _ in range(3)]
    rows = 3 if draw(st.booleans()) else 4
    M = np.zeros((rows, 4))
    M[:3, :3] = A
    M[:3, 3] = t
    if rows == 4:
        M[3, 3] = 1
    return {"matrix": M.tolist(), "kind": kind}


@st.composite
def affine_cases(draw):
    return {"mesh": draw(meshes(min_vertices=1)), "affine": draw(affines()),
            "vdtype": draw(st.sampled_from(["float32", "float64"]))}


def expected_affine(verts, M):
    out = []
    for v in verts:
        out.append([sum(M[i][j] * float(v[j]) for j in range(3)) + M[i][3]
                    for i in range(3)])
    return out


def check_affine(ctx, case):
    from neuroglancer_scripts import mesh as MM
    v, t = arrays(case["mesh"], case["vdtype"], "uint32")
    M = np.array(case["affine"]["matrix"], dtype=float)
    det = float(np.linalg.det(M[:3, :3]))
    v0 = v.copy()
    t0 = t.copy()
    try:
        ov, ot = MM.affine_transform_mesh(v, t, M)
    except Exception as exc:
        ctx.fail("affine_transform_mesh raised %s: %s" % (
            type(exc).__name__, exc))
    if not np.array_equal(v, v0) or not np.array_equal(t, t0):
        ctx.fail("affine_transform_mesh modified its inputs")
    ov = np.asarray(ov, dtype=float)
    ot = np.asarray(ot)
    if ov.shape != v.shape or ot.shape != t.shape:
        ctx.fail("shapes changed: %s %s" % (ov.shape, ot.shape))
    ev = np.array(expected_affine(v.tolist(), M.tolist())).reshape(-1, 3)
    scale = np.abs(M[:3, :3]).max() * max(1.0, np.abs(v).max()) + np.abs(
        M[:3, 3]).max()
    if np.abs(ov - ev).max() > 1e-9 * max(scale, 1e-30):
        ctx.fail("vertices differ from R.v+t by %g (scale %g)" % (
            np.abs(ov - ev).max(), scale))
    if abs(det) < 1e-9:
        return False     # near-singular: only 'no crash' is required
    want = t if det > 0 else t[:, ::-1]
    if not np.array_equal(ot, want):
        ctx.fail("det=%g: triangles %s, expected %s" % (
            det, ot[:3].tolist(), want[:3].tolist()))
    # geometric cross-check of the orientation
    Rit = np.linalg.inv(M[:3, :3]).T
    vv = v.astype(float)
    for a, b, c in t.tolist():
        nrm = np.cross(vv[b] - vv[a], vv[c] - vv[a])
        size = np.linalg.norm(vv[b] - vv[a]) * np.linalg.norm(vv[c] - vv[a])
        if size == 0 or np.linalg.norm(nrm) < 1e-3 * size:
            continue
        break
    else:
        return det < 0
    for (a, b, c), (oa, ob, oc) in zip(t.tolist(), ot.tolist()):
        nrm = np.cross(vv[b] - vv[a], vv[c] - vv[a])
        size = np.linalg.norm(vv[b] - vv[a]) * np.linalg.norm(vv[c] - vv[a])
        if size == 0 or np.linalg.norm(nrm) < 1e-3 * size:
            continue
        n2 = np.cross(ov[ob] - ov[oa], ov[oc] - ov[oa])
        ref = Rit @ nrm
        d = float(np.dot(n2, ref))
        if d <= 0 and abs(d) > 1e-6 * np.linalg.norm(n2) * np.linalg.norm(ref):
            ctx.fail("det=%g: triangle %s is turned inside out by the "
                     "transform (normal dot %g)" % (det, [a, b, c], d))
    return det < 0


def run_affine(ctx, n):
    def check(ctx, case):
        mirrored = check_affine(ctx, case)
        ctx.record(case, bool(mirrored) or len(case["mesh"]["triangles"]) >= 2,
                   [case["affine"]["kind"],
                    "rows%d" % len(case["affine"]["matrix"])])
    ctx.run_hypothesis(affine_cases(), check, n)


# ---- 5: mesh-to-precomputed ------------------------------------------------
SEG_INFO = {"type": "segmentation", "data_type": "uint32", "num_channels": 1,
            "scales": [{"key": "1um", "size": [2, 2, 2],
                        "resolution": [1000, 1000, 1000],
                        "voxel_offset": [0, 0, 0], "chunk_sizes": [[2, 2, 2]],
                        "encoding": "raw"}]}


@st.composite
def convert_cases(draw):
    return {"mesh": draw(meshes(min_vertices=3)),
            "affine": draw(st.one_of(st.none(), affines(False))),
            "cli": draw(st.booleans()), "gzip": draw(st.booleans()),
            "mesh_dir": draw(st.sampled_from([None, "mesh", "m2"])),
            "has_mesh_key": draw(st.booleans()),
            "name": draw(st.sampled_from([None, "frag", "a.b"])),
            # variants of the GIfTI container that the image library reads
            "gii": [draw(st.sampled_from(["GIFTI_ENCODING_B64GZ",
                                          "GIFTI_ENCODING_B64BIN",
                                          "GIFTI_ENCODING_ASCII"])),
                    draw(st.sampled_from(["C", "C", "F"])),
                    draw(st.sampled_from(["little", "little", "big"]))],
            # stored type of the point set - the three types the GIfTI
            # standard allows (integer types hold whole
            # millimetres - or a coarser unit folded into the transform -
            # scaled so that coordinates of several metres occur)
            "point_type": draw(st.sampled_from(
                ["FLOAT32", "FLOAT32", "INT32", "INT32", "UINT8"])),
            "point_scale": draw(st.sampled_from([1, 40, 1000]))}


def check_convert(ctx, case):
    import nibabel as nib
    from neuroglancer_scripts.scripts import mesh_to_precomputed as mtp
    d = ctx.tmpdir("mesh")
    try:
        v, t = arrays(case["mesh"], "float32", "int32")
        ptype = case.get("point_type", "FLOAT32")
        if ptype != "FLOAT32":
            pdt = np.dtype(ptype.lower())
            if pdt.kind in "iu":
                ii = np.iinfo(pdt)
                v = np.clip(np.round(v.astype(float) * case["point_scale"]),
                            ii.min, ii.max)
            v = v.astype(pdt)
        genc, gorder, gendian = case.get("gii") or [
            "GIFTI_ENCODING_B64GZ", "C", "little"]
        gi = nib.gifti.GiftiImage(darrays=[
            nib.gifti.GiftiDataArray(v, intent="NIFTI_INTENT_POINTSET",
                                     datatype="NIFTI_TYPE_" + ptype,
                                     encoding=genc, ordering=gorder,
                                     endian=gendian),
            nib.gifti.GiftiDataArray(t, intent="NIFTI_INTENT_TRIANGLE",
                                     datatype="NIFTI_TYPE_INT32",
                                     encoding=genc, ordering=gorder,
                                     endian=gendian)])
        src = os.path.join(d, "input.surf.gii")
        nib.save(gi, src)
        # precondition: the image library gives back the arrays that were
        # stored (otherwise the case says nothing about the converter)
        try:
            back = nib.load(src)
            bv = back.get_arrays_from_intent("NIFTI_INTENT_POINTSET")[0].data
            bt = back.get_arrays_from_intent("NIFTI_INTENT_TRIANGLE")[0].data
            pre = bv.shape == v.shape and bt.shape == t.shape and \
                np.array_equal(bv, v) and np.array_equal(bt, t)
        except Exception:
            pre = False
        if not pre:
            # (the image library does not round-trip every variant it can
            # write, e.g. big-endian binary and column-major ASCII)
            ctx.count("gifti_precondition_failed." + "/".join(
                [genc[15:], gorder, gendian]))
            return None
        dest = os.path.join(d, "ds")
        os.makedirs(dest)
        info = json.loads(json.dumps(SEG_INFO))
        mesh_dir = case["mesh_dir"] or "mesh"
        if case["has_mesh_key"]:
            info["mesh"] = mesh_dir
        with open(os.path.join(dest, "info"), "w") as f:
            json.dump(info, f)
        M = None if case["affine"] is None else np.array(
            case["affine"]["matrix"], dtype=float)
        name = case["name"] or "input.surf"
        if case["cli"]:
            argv = ["mesh-to-precomputed", src, dest]
            if case["mesh_dir"]:
                argv += ["--mesh-dir", case["mesh_dir"]]
            if case["name"]:
                argv += ["--mesh-name", case["name"]]
            if M is not None:
                argv += ["--coord-transform=" + ",".join(
                    repr(float(x)) for x in M.ravel())]
            if not case["gzip"]:
                argv += ["--no-gzip"]
            rc = mtp.main(argv)
        else:
            rc = mtp.mesh_file_to_precomputed(
                src, dest, mesh_name=case["name"], mesh_dir=case["mesh_dir"],
                coord_transform=M, options={"gzip": case["gzip"]}) or 0
        if rc != 0:
            ctx.fail("mesh conversion returned %r" % rc)
        new_info = json.load(open(os.path.join(dest, "info")))
        if new_info.get("mesh") != mesh_dir:
            ctx.fail("info['mesh'] is %r, expected %r" % (
                new_info.get("mesh"), mesh_dir))
        for k in SEG_INFO:
            if new_info.get(k) != SEG_INFO[k]:
                ctx.fail("info key %r changed by the mesh conversion" % k)
        p = os.path.join(dest, mesh_dir, name)
        if case["gzip"]:
            if not os.path.isfile(p + ".gz"):
                ctx.fail("fragment file %s.gz not written (found %s)" % (
                    p, os.listdir(os.path.join(dest, mesh_dir))
                    if os.path.isdir(os.path.join(dest, mesh_dir)) else None))
            data = gzip.open(p + ".gz").read()
        else:
            if not os.path.isfile(p):
                ctx.fail("fragment file %s not written" % p)
            data = open(p, "rb").read()
        try:
            n, pv, pt = mesh_spec.parse(data)
        except mesh_spec.MeshSpecError as exc:
            ctx.fail("stored fragment does not follow the format: %s" % exc)
        vv = v.astype(float)
        if M is not None:
            vv = np.array(expected_affine(vv.tolist(), M.tolist()))
            det = np.linalg.det(M[:3, :3])
        else:
            det = 1.0
        ev = 1e6 * vv
        gv = np.array(pv, dtype=float).reshape(-1, 3)
        if gv.shape != ev.shape:
            ctx.fail("fragment has %d vertices, expected %d" % (len(gv),
                                                               len(ev)))
        # float32 storage and a handful of roundings: a few float32 ulps of
        # the largest term entering each coordinate
        if M is not None:
            bound = np.abs(v.astype(float)) @ np.abs(M[:3, :3]).T + np.abs(
                M[:3, 3])
        else:
            bound = np.abs(v.astype(float))
        tol = 4e-7 * 1e6 * np.maximum(bound, 1e-30)
        if np.any(np.abs(gv - ev) > tol):
            i = int(np.argmax(np.abs(gv - ev) - tol)) // 3
            ctx.fail("fragment vertex %d is %s, expected 1e6*(T.v)=%s" % (
                i, gv[i].tolist(), ev[i].tolist()))
        want = t if det > 0 else t[:, ::-1]
        if [list(x) for x in pt] != want.tolist():
            ctx.fail("fragment triangles %s, expected %s" % (pt[:3],
                                                            want[:3].tolist()))
    finally:
        ctx.rmtree(d)


def run_convert(ctx, n):
    def check(ctx, case):
        before = sum(v for k, v in ctx.counters.items()
                     if k.startswith("gifti_precondition_failed"))
        check_convert(ctx, case)
        skipped = sum(v for k, v in ctx.counters.items()
                      if k.startswith("gifti_precondition_failed")) > before
        ctx.record(case, len(case["mesh"]["triangles"]) >= 2 and not skipped,
                   ["cli" if case["cli"] else "api",
                    "transform" if case["affine"] else "identity",
                    "gzip" if case["gzip"] else "plain",
                    "gii." + "/".join(case.get("gii") or ["default"]),
                    "points." + case.get("point_type", "FLOAT32")])
    ctx.run_hypothesis(convert_cases(), check, n)


# ---- 6: VTK export ---------------------------------------------------------
name_st = st.text(alphabet="abcXYZ019_-.:", min_size=1, max_size=8)


@st.composite
def vtk_cases(draw):
    mesh = draw(meshes(wide=True))
    n = len(mesh["vertices"])
    attrs = []
    for _ in range(draw(st.integers(0, 3))):
        k = draw(st.integers(1, 4))
        vals = [[draw(coord) for _ in range(k)] for _ in range(n)]
        attrs.append({"name": draw(name_st), "values": vals, "k": k,
                      "flat": k == 1 and draw(st.booleans())})
    return {"mesh": mesh, "attrs": attrs,
            "title": draw(st.one_of(st.just(""), st.text(
                alphabet="abc xyz,.-#", max_size=300))),
            "vdtype": draw(st.sampled_from(["float32", "float64"])),
            "tdtype": draw(st.sampled_from(["uint32", "int64", "uint8"])),
            # memory layout of vertices / triangles / attribute tables, or
            # the arrays as affine_transform_mesh returns them (one mesh
            # tool applied to the output of another)
            "layout": draw(st.one_of(
                st.none(), st.just("transformed"),
                st.tuples(st.sampled_from(ds.LAYOUTS),
                          st.sampled_from(ds.LAYOUTS)).map(list)))}


def check_vtk(ctx, case):
    from neuroglancer_scripts import mesh as M
    v, t = arrays(case["mesh"], case["vdtype"], "int64")
    if case["tdtype"] == "uint8" and len(v) > 255:
        t = t.astype("int64")
    else:
        t = t.astype(case["tdtype"])
    attrs = []
    for a in case["attrs"]:
        vals = np.array(a["values"], dtype=float).reshape(len(v), a["k"])
        if a["flat"]:
            vals = vals[:, 0]
        attrs.append({"name": a["name"], "values": vals})
    lay = case.get("layout")
    if lay == "transformed":
        v, t = M.affine_transform_mesh(v, t, np.eye(4))
        if not np.array_equal(np.asarray(v), np.array(
                case["mesh"]["vertices"], dtype=case["vdtype"]).reshape(
                    -1, 3)):
            ctx.fail("the identity transform moved the vertices")
    elif lay:
        v = ds.laid_out(v, lay[0]) if len(v) else v
        t = ds.laid_out(t, lay[1]) if len(t) else t
        for a_ in attrs:
            if len(v):
                a_["values"] = ds.laid_out(a_["values"], lay[0])
    sio = io.StringIO()
    try:
        # "an iterable": a list, a tuple, a generator, an iterator over
        # dict sub-class items
        how = (len(attrs) + len(case["title"]) + len(v)) % 4
        given = {0: attrs, 1: tuple(attrs), 2: (a_ for a_ in attrs),
                 3: iter([collections.OrderedDict(a_) for a_ in attrs])}[how]
        M.save_mesh_as_neuroglancer_vtk(sio, v, t, vertex_attributes=given,
                                        title=case["title"])
    except Exception as exc:
        ctx.fail("save_mesh_as_neuroglancer_vtk raised %s: %s" % (
            type(exc).__name__, exc))
    text = sio.getvalue()
    try:
        parsed = vtk_grammar.parse(text)
    except vtk_grammar.GrammarError as exc:
        ctx.fail("VTK output is not accepted by the Neuroglancer subset "
                 "grammar: %s\n%s" % (exc, text[:300]))
    ev = v.astype(np.float32)
    gv = np.array(parsed["points"], dtype=np.float64).reshape(-1, 3)
    if gv.shape != ev.shape or not np.array_equal(gv.astype(np.float32), ev):
        ctx.fail("VTK points do not parse back to float32(vertices)")
    if [list(x) for x in parsed["triangles"]] != t.astype(
            np.int64).tolist():
        ctx.fail("VTK polygons differ from the triangles")
    if len(parsed["attributes"]) != len(attrs):
        ctx.fail("VTK has %d attributes, expected %d" % (
            len(parsed["attributes"]), len(attrs)))
    for (name, k, vals), a in zip(parsed["attributes"], case["attrs"]):
        want = np.array(a["values"], dtype=np.float32).reshape(len(v),
                                                               a["k"])
        got = np.array(vals, dtype=np.float64).reshape(len(v), k)
        if name != a["name"] or got.shape != want.shape or not np.array_equal(
                got.astype(np.float32), want):
            ctx.fail("VTK attribute %r differs" % name)


def run_vtk(ctx, n):
    def check(ctx, case):
        check_vtk(ctx, case)
        lay = case.get("layout")
        ctx.record(case, len(case["mesh"]["triangles"]) >= 2,
                   ["attrs%d" % len(case["attrs"]),
                    "layout." + ("given" if not lay else lay if isinstance(
                        lay, str) else lay[0])])
    ctx.run_hypothesis(vtk_cases(), check, n)


# ---- 7: fragment links -----------------------------------------------------
frag_name = st.text(alphabet="abcdefXYZ0123456789_-. ", max_size=9).map(
    lambda s: "f" + s)


@st.composite
def link_cases(draw):
    # segment identifiers are uint64: include labels no float64 can hold
    label = st.one_of(
        st.integers(0, 2 ** 40), st.integers(0, 300),
        st.sampled_from([2 ** 53 + 1, 2 ** 53 + 3, 2 ** 63 + 1, 2 ** 64 - 1,
                         2 ** 64 - 2, 2 ** 32, 2 ** 32 - 1]),
        st.integers(2 ** 53, 2 ** 64 - 1))
    labels = draw(st.lists(label, min_size=1, max_size=6, unique=True))
    table = [[lab, draw(st.lists(frag_name, max_size=4))] for lab in labels]
    return {"table": table, "no_colon": draw(st.booleans()),
            "mesh_dir": draw(st.sampled_from(["mesh", "m/sub"])),
            "existing": draw(st.booleans())}


def check_links(ctx, case):
    from neuroglancer_scripts.scripts import link_mesh_fragments as lmf
    d = ctx.tmpdir("links")
    try:
        dest = os.path.join(d, "ds")
        os.makedirs(dest)
        info = json.loads(json.dumps(SEG_INFO))
        info["mesh"] = case["mesh_dir"]
        with open(os.path.join(dest, "info"), "w") as f:
            json.dump(info, f)
        mdir = os.path.join(dest, case["mesh_dir"])
        frags = set()
        if case["existing"]:
            os.makedirs(mdir)
            for _, names in case["table"]:
                for nm in names:
                    frags.add(nm)
                    open(os.path.join(mdir, nm), "wb").close()
        csv_path = os.path.join(d, "table.csv")
        with open(csv_path, "w", newline="") as f:
            w = csv.writer(f)
            for lab, names in case["table"]:
                w.writerow([lab] + list(names))
        rc = lmf.main(["link-mesh-fragments", csv_path, dest]
                      + (["--no-colon-suffix"] if case["no_colon"] else []))
        if rc != 0:
            ctx.fail("link-mesh-fragments returned %r" % rc)
        found = set(os.listdir(mdir)) - frags if os.path.isdir(mdir) else set()
        want = {("%d" % lab) + ("" if case["no_colon"] else ":0"): names
                for lab, names in case["table"]}
        if found != set(want):
            ctx.fail("link files %s, expected %s" % (sorted(found),
                                                     sorted(want)))
        for fn, names in want.items():
            got = json.load(open(os.path.join(mdir, fn)))
            if got != {"fragments": list(names)}:
                ctx.fail("link file %s contains %r, expected fragments %r" % (
                    fn, got, names))
        # the command is run again with a corrected table (one more fragment
        # for every label): either it refuses (the files exist), or - if it
        # reports success - the files list exactly the new fragments
        table2 = [(lab, list(names) + ["added_%d" % lab])
                  for lab, names in case["table"]]
        with open(csv_path, "w", newline="") as f:
            w = csv.writer(f)
            for lab, names in table2:
                w.writerow([lab] + list(names))
        try:
            rc2 = lmf.main(["link-mesh-fragments", csv_path, dest]
                           + (["--no-colon-suffix"] if case["no_colon"]
                              else []))
        except SystemExit as exc:
            rc2 = exc.code if isinstance(exc.code, int) else 1
        except Exception as exc:
            from vlib.runner import _from_repo
            if not _from_repo(exc):
                raise
            rc2 = 1       # an uncaught error ends the command: a refusal
        if not rc2 and table2:
            for lab, names in table2:
                fn = ("%d" % lab) + ("" if case["no_colon"] else ":0")
                got = json.load(open(os.path.join(mdir, fn)))
                if got != {"fragments": list(names)}:
                    ctx.fail("second run with a corrected table reported "
                             "success, but link file %s contains %r, the "
                             "table gives %r" % (fn, got, names))
    finally:
        ctx.rmtree(d)


def run_links(ctx, n):
    def check(ctx, case):
        check_links(ctx, case)
        ctx.record(case, len(case["table"]) >= 2,
                   ["nocolon" if case["no_colon"] else "colon"])
    ctx.run_hypothesis(link_cases(), check, n)


def atheris_mesh_seeds(kind):
    out = []
    for n in (1, 2, 3, 5):
        v = np.arange(3 * n, dtype="<f4").tobytes()
        t = (np.arange(6, dtype="<u4") % n).tobytes()
        out.append(struct.pack("<I", n) + v + t)
    return out


def atheris_mesh_deep(kind, data):
    try:
        mesh_spec.parse(data)
        return True
    except mesh_spec.MeshSpecError:
        return len(data) >= 16


def run_atheris(ctx, n):
    from vlib import atheris_run
    if ctx.tier == "quick":
        atheris_run.campaign(ctx, ["mesh"], atheris_mesh_seeds,
                             atheris_mesh_deep, runs=n, max_len=256)
    else:
        atheris_run.campaign(ctx, ["mesh"], atheris_mesh_seeds,
                             atheris_mesh_deep, seconds=n, max_len=256)


CHECKS = {"layout": check_layout, "reader": check_reader,
          "affine": check_affine, "convert": check_convert, "vtk": check_vtk,
          "links": check_links}

SUBS = [
    Sub("layout", run_layout, check_layout, quick=2500, thorough=160000),
    Sub("layout_large", run_layout_large, check_layout, quick=24,
        thorough=800, shards=6),
    Sub("reader_big", run_reader_big, check_reader_big, quick=1, thorough=3,
        shards=1),
    Sub("reader", run_reader, check_reader, quick=4000, thorough=300000),
    Sub("affine", run_affine, check_affine, quick=2500, thorough=160000),
    Sub("convert", run_convert, check_convert, quick=300, thorough=12000),
    Sub("vtk", run_vtk, check_vtk, quick=1500, thorough=80000),
    Sub("links", run_links, check_links, quick=400, thorough=16000),
    Sub("atheris", run_atheris, check_reader, quick=40000, thorough=120,
        serial=True),
]
