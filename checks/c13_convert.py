"""C13 - re-encoding a dataset preserves its voxels exactly for lossless
targets."""
import json
import os

import numpy as np
from hypothesis import strategies as st

from vlib import datasets as ds
from vlib import httpd
from vlib.refs import dtype_ref
from vlib.runner import Sub

PROPERTY = "C13"
META = {
    "level": "exploration",
    "rule": ("Hypothesis draws a source dataset (1-3 scales with their own "
             "chunk sizes, data type, 1-2 channels, label-like content held "
             "in harness memory; stored as files flat/deep/gzip, sharded, or "
             "served over loopback HTTP plain/sharded) and a destination "
             "(raw <-> compressed_segmentation, equal or wider data type, "
             "sharding added or removed, flat/gzip options, with or without "
             "--copy-info); convert-chunks runs in-process with atexit "
             "handlers captured. non-trivial = >= 2 scales or an encoding / "
             "sharding / data-type change; distinct by the whole case."
             ' Also: scales listing two chunk sizes, per-scale block sizes'
             ', piecewise-constant and fingerprint-colliding labels, desti'
             'nation compressed_segmentation files decoded from the format'
             ' description, a warm-up on a uint32 segmentation in the same'
             ' process.'
             " Round 12: regular label structure; the library function after an earlier sharded conversion in the same process, default options omitted."
             " Round 16: destination infos listing a subset / another order of the source's scales; sub-check option_grid."),
    "trusted_base": ["vlib/refs/dtype_ref.py", "vlib/httpd.py",
                     "in-memory source arrays"],
}

WIDER = {"uint8": ["uint8", "uint16", "uint32", "uint64", "float32"],
         "uint16": ["uint16", "uint32", "uint64", "float32"],
         "uint32": ["uint32", "uint64"],
         "uint64": ["uint64"],
         "float32": ["float32"]}
SRC_KINDS = ["file_deep_gz", "file_flat", "file_deep", "sharded",
             "http_plain", "http_sharded"]
DST_KINDS = ["file_deep_gz", "file_flat", "file_flat_gz", "sharded",
             "copy_info", "copy_info"]


@st.composite
def cases(draw):
    src_kind = draw(st.sampled_from(SRC_KINDS))
    dst_kind = draw(st.sampled_from(DST_KINDS))
    cubic = "sharded" in src_kind or dst_kind in ("sharded", "copy_info")
    nscales = draw(st.integers(1, 3))
    # every chunk fetched over HTTP costs 1-3 requests: keep those small
    lim = 6 if src_kind.startswith("http") else 14
    size = [draw(st.integers(1, lim)) for _ in range(3)]
    scales = []
    for i in range(nscales):
        c = [draw(st.sampled_from([1, 2, 3, 4, 8])) for _ in range(3)]
        if cubic:
            c = [c[0]] * 3
        sc_ = {"size": list(size), "chunk": c}
        if not cubic and "sharded" not in dst_kind and draw(
                st.integers(0, 3)) == 0:
            # a scale may list several chunk sizes: every listed grid is
            # stored in the source and must be converted
            c2 = [draw(st.sampled_from([1, 2, 3, 4, 8])) for _ in range(3)]
            if c2 != c:
                sc_["chunk2"] = c2
        scales.append(sc_)
        size = [ds.ceil_div(s, 2) for s in size]
    dbits = [draw(st.integers(0, 2)),
             draw(st.sampled_from([0, 1, 2, 6, 7])),
             draw(st.integers(0, 2))]
    if dst_kind == "sharded" and not src_kind.startswith("http") and \
            draw(st.booleans()):
        # a destination scale spread over more than 32 (64) shard files, each
        # holding several chunks: 125..1000 chunks
        c = draw(st.sampled_from([1, 2]))
        n = [draw(st.integers(5, 9)) for _ in range(3)]
        scales = [{"size": [k * c - draw(st.integers(0, c - 1)) for k in n],
                   "chunk": [c, c, c]}]
        dbits = [draw(st.integers(0, 1)), draw(st.integers(6, 7)), 0]
    sdt = draw(st.sampled_from(sorted(WIDER)))
    ddt = draw(st.sampled_from(WIDER[sdt]))
    if dst_kind == "copy_info":
        ddt = sdt
    senc = draw(st.sampled_from(["raw", "compressed_segmentation"])) \
        if sdt in ("uint32", "uint64") else "raw"
    denc = draw(st.sampled_from(["raw", "compressed_segmentation"])) \
        if ddt in ("uint32", "uint64") else "raw"
    if dst_kind == "copy_info":
        denc = senc
    return {"src_kind": src_kind, "dst_kind": dst_kind, "scales": scales,
            "src_dtype": sdt, "dst_dtype": ddt, "src_enc": senc,
            "dst_enc": denc, "channels": draw(st.integers(1, 2)),
            "bits": [draw(st.integers(0, 2)) for _ in range(3)],
            "dbits": dbits,
            "shard_enc": draw(st.sampled_from(["raw", "gzip"])),
            "block": [draw(st.sampled_from([1, 2, 8])) for _ in range(3)],
            "dblock": [draw(st.sampled_from([1, 2, 4, 8])) for _ in range(3)],
            "dst_spelling": draw(st.sampled_from(
                ["plain", "plain", "dotdot", "symlink", "symlink_dotdot"])),
            # command line, or the library function called by a program that
            # has converted another (sharded) dataset just before, with the
            # same options object - or with none at all when the defaults
            # apply
            "via": draw(st.sampled_from(["cli", "cli", "api"])),
            "dst_scales": draw(st.sampled_from(
                ["same", "same", "same", "drop_first", "reversed",
                 "last_only"])),
            "seed": draw(st.integers(0, 2 ** 31))}


def earlier_conversion(root, opts):
    """A program that converts several datasets in a row: a tiny sharded
    dataset is converted with --copy-info semantics first, with the same
    options object (none when the defaults apply)."""
    from neuroglancer_scripts.scripts import convert_chunks
    info = ds.make_info("uint8", 1, [ds.make_scale(
        "w0", [2, 2, 2], [2, 2, 2], "raw",
        sharding=ds.sharding_dict(0, 1, 0, "raw", "raw"))])
    src = os.path.join(root, "warm_src")
    pio = ds.new_dataset(info, {"type": "sharded", "strategy": "in memory"},
                         src)
    ds.write_scale(pio, info["scales"][0],
                   np.arange(8, dtype=np.uint8).reshape(1, 2, 2, 2))
    ds.close_accessor(pio)
    with ds.captured_atexit():
        if opts is None:
            convert_chunks.convert_chunks(src, os.path.join(root, "warm_dst"),
                                          copy_info=True)
        else:
            convert_chunks.convert_chunks(src, os.path.join(root, "warm_dst"),
                                          copy_info=True, options=opts)


def build_info(case, side):
    dt = case[side + "_dtype"]
    enc = case[side + "_enc"]
    kind = case["src_kind"] if side == "src" else case["dst_kind"]
    sharded = "sharded" in kind
    bits = case["bits"] if side == "src" else case["dbits"]
    scales = []
    for i, s in enumerate(case["scales"]):
        blk = case["block"] if side == "src" else case.get(
            "dblock", case["block"])
        # (the block size is a per-scale field: rotate it from scale to scale)
        blk = list(blk[i % 3:]) + list(blk[:i % 3])
        scales.append(ds.make_scale(
            "s%d" % i, s["size"], s["chunk"], enc, block=blk,
            sharding=ds.sharding_dict(bits[0], bits[1], bits[2],
                                      case["shard_enc"], case["shard_enc"])
            if sharded else None))
        if s.get("chunk2"):
            scales[-1]["chunk_sizes"].append(list(s["chunk2"]))
    return ds.make_info(dt, case["channels"], scales, "segmentation")


def grids(scale_info):
    """One single-grid view of the scale per listed chunk size."""
    return [dict(scale_info, chunk_sizes=[cs])
            for cs in scale_info["chunk_sizes"]]


def source_arrays(case):
    rng = np.random.default_rng(case["seed"])
    dt = np.dtype(case["src_dtype"])
    out = []
    for s in case["scales"]:
        X, Y, Z = s["size"]
        shape = (case["channels"], Z, Y, X)
        if dt.kind == "f":
            a = (rng.integers(0, 50, size=shape) * 0.25 - 3).astype(dt)
        else:
            hi = int(np.iinfo(dt).max)
            pal = rng.integers(0, hi, size=5, dtype=np.uint64, endpoint=True)
            pal[0] = hi
            if case["seed"] % 3 == 1 and dt.itemsize >= 4 and \
                    "compressed_segmentation" in (case["src_enc"],
                                                  case["dst_enc"]):
                # blocks whose lookup tables differ but agree in every cheap
                # fingerprint (length, ends, byte sum, CRC-32)
                from checks import c02_cseg
                a = c02_cseg.fingerprint_chunk(
                    {"channels": case["channels"], "size": [X, Y, Z],
                     "block": case.get("dblock", case["block"])},
                    dt.newbyteorder("<"), rng).astype(dt)
            elif case["seed"] % 5 == 4:
                # regular structure: blocks (also border blocks of different
                # shapes) with byte-identical voxel sequences
                a = ds.regular_labels(shape, dt, rng, None)
            elif case["seed"] % 3 == 0:
                # piecewise constant labels (uniform 2x2x2 regions, as real
                # segmentations have): whole blocks hold a single label
                coarse = tuple([shape[0]] + [-(-n // 2) for n in shape[1:]])
                a = pal[rng.integers(0, 5, size=coarse)]
                for ax in (1, 2, 3):
                    a = np.repeat(a, 2, axis=ax)
                a = a[:, :shape[1], :shape[2], :shape[3]].astype(dt)
            else:
                a = pal[rng.integers(0, 5, size=shape)].astype(dt)
        out.append(a)
    return out


def check_case(ctx, case):
    from neuroglancer_scripts.scripts import convert_chunks
    root = ctx.tmpdir("conv")
    srv = None
    try:
        sinfo = build_info(case, "src")
        sdir = os.path.join(root, "srv", "src")
        os.makedirs(os.path.dirname(sdir))
        sk = case["src_kind"]
        if "sharded" in sk:
            acc_kind = {"type": "sharded", "strategy": "in memory"}
        else:
            acc_kind = {"type": "file",
                        "flat": sk in ("file_flat", "http_plain"),
                        "gzip": sk == "file_deep_gz", "compresslevel": 1}
        pio = ds.new_dataset(sinfo, acc_kind, sdir)
        arrays = source_arrays(case)
        for sc_, a in zip(sinfo["scales"], arrays):
            for g in grids(sc_):
                ds.write_scale(pio, g, a)
        ds.close_accessor(pio)
        before = ds.tree_snapshot(sdir)
        src_url = sdir
        if sk.startswith("http"):
            srv = httpd.StaticServer(os.path.join(root, "srv"), rewrite=False)
            src_url = srv.url + "src"
        ddir = os.path.join(root, "dst")
        dk = case["dst_kind"]
        # how the destination is spelled on the command line (the reads of
        # the oracle use the real directory the operating system designates)
        dspell = case.get("dst_spelling", "plain")
        ddir_arg = ddir
        if dspell == "dotdot":
            os.makedirs(os.path.join(root, "sub"))
            ddir_arg = os.path.join(root, "sub", "..", "dst")
        elif dspell == "symlink_dotdot":
            # <link>/../dst where the link points two levels down: the
            # system resolves ".." AFTER following the link
            deep = os.path.join(root, "deep", "er")
            os.makedirs(deep)
            os.symlink(deep, os.path.join(root, "link"))
            ddir = os.path.join(root, "deep", "dst")
            ddir_arg = os.path.join(root, "link", "..", "dst")
        elif dspell == "symlink":
            os.makedirs(os.path.join(root, "real"))
            os.symlink(os.path.join(root, "real"), os.path.join(root, "ln"))
            ddir = os.path.join(root, "real", "dst")
            ddir_arg = os.path.join(root, "ln", "dst")
        argv = ["convert-chunks", src_url, ddir_arg]
        if dk == "copy_info":
            argv.append("--copy-info")
            dinfo = sinfo
        else:
            dinfo = build_info(case, "dst")
            # the destination description is an input of its own: it may
            # list only some of the source's scales, or list them in another
            # order (documented: "the 20um and 40um scales can be removed")
            how = case.get("dst_scales", "same")
            if how == "drop_first" and len(dinfo["scales"]) > 1:
                dinfo["scales"] = dinfo["scales"][1:]
            elif how == "reversed":
                dinfo["scales"] = dinfo["scales"][::-1]
            elif how == "last_only":
                dinfo["scales"] = dinfo["scales"][-1:]
            os.makedirs(ddir)
            with open(os.path.join(ddir, "info"), "w") as f:
                json.dump(dinfo, f)
        if dk in ("file_flat", "file_flat_gz"):
            argv.append("--flat")
        if dk in ("file_flat",) or (dk == "copy_info"
                                    and case["seed"] % 2):
            argv.append("--no-gzip")
        # the process has already handled another segmentation (uint32, the
        # same block sizes) before this conversion
        from neuroglancer_scripts import chunk_encoding as ce_
        for blk in (case["block"], case.get("dblock", case["block"])):
            for rot in range(3):
                b = list(blk[rot:]) + list(blk[:rot])
                e = ce_.CompressedSegmentationEncoder("uint32", 1, b)
                w = np.full((1, 3, 2, 3), 7, dtype="<u4")
                e.decode(bytes(e.encode(w)), (3, 2, 3))
        try:
            if case.get("via") == "api":
                opts = {}
                if "--flat" in argv:
                    opts["flat"] = True
                if "--no-gzip" in argv:
                    opts["gzip"] = False
                opts = opts or None
                before_opts = None if opts is None else dict(opts)
                earlier_conversion(root, opts)
                with ds.captured_atexit(), np.errstate(all="ignore"):
                    if opts is None:
                        convert_chunks.convert_chunks(
                            src_url, ddir_arg, copy_info=dk == "copy_info")
                    else:
                        convert_chunks.convert_chunks(
                            src_url, ddir_arg, copy_info=dk == "copy_info",
                            options=opts)
                rc = 0
                if opts != before_opts:
                    # not a violation by itself: the voxels decide
                    ctx.count("callers_options_changed")
            else:
                with ds.captured_atexit(), np.errstate(all="ignore"):
                    rc = convert_chunks.main(argv)
        except SystemExit as exc:
            ctx.fail("convert-chunks exited with %r (%s)" % (exc.code,
                                                             describe(case)))
        except Exception as exc:
            from vlib.runner import _from_repo
            if not _from_repo(exc):
                raise
            ctx.fail("convert-chunks failed with %s: %s (%s)" % (
                type(exc).__name__, exc, describe(case)))
        if rc != 0:
            ctx.fail("convert-chunks returned %r (%s)" % (rc, describe(case)))
        if ds.tree_snapshot(sdir) != before:
            ctx.fail("the source dataset was modified by the conversion (%s)"
                     % describe(case))
        try:
            pio2 = ds.open_dataset(ddir)
        except Exception as exc:
            ctx.fail("destination cannot be opened: %s %s (%s)" % (
                type(exc).__name__, exc, describe(case)))
        ddt = case["dst_dtype"]
        if pio2.info["data_type"] != ddt:
            ctx.fail("destination info has data_type %s, expected %s" % (
                pio2.info["data_type"], ddt))
        by_key = {"s%d" % k: arr for k, arr in enumerate(arrays)}
        for sc0_ in dinfo["scales"]:
            i = int(sc0_["key"][1:])
            a = by_key[sc0_["key"]]
            for sc_ in grids(sc0_):
                try:
                    got = ds.read_scale(pio2, sc_, ddt, case["channels"])
                except Exception as exc:
                    ctx.fail("scale %d (chunk size %s) of the destination cannot "
                             "be read back: %s %s (%s)" % (
                                 i, sc_["chunk_sizes"][0], type(exc).__name__,
                                 exc, describe(case)))
                want = a.astype(ddt)    # all generated conversions are exact
                chk = np.array([sorted(dtype_ref.convert_value(v, ddt))[0]
                                for v in a.reshape(-1)[:8].tolist()],
                               dtype=ddt)
                if not np.array_equal(chk, want.reshape(-1)[:8]):
                    raise AssertionError("harness: conversion is not exact")
                if sc_["encoding"] == "compressed_segmentation" and \
                        "sharding" not in sc_ and want.size <= 20000:
                    # the destination files themselves, decoded from the
                    # format description with the block size of THIS scale
                    from vlib.refs import cseg_spec
                    bs = sc_["compressed_segmentation_block_size"]
                    for cc in ds.chunk_coords_list(sc_["size"],
                                                   sc_["chunk_sizes"][0]):
                        x0, x1, y0, y1, z0, z1 = cc
                        w = want[:, z0:z1, y0:y1, x0:x1]
                        try:
                            ref = cseg_spec.decode(bytes(
                                pio2.accessor.fetch_chunk(sc_["key"], cc)),
                                w.shape, bs, w.dtype)
                            okc = np.array_equal(ref, w)
                        except Exception:       # noqa
                            okc = False
                        if not okc:
                            ctx.fail("destination chunk %s of scale %d does "
                                     "not decode to the source voxels with "
                                     "the block size %s its info announces "
                                     "(%s)" % (cc, i, bs, describe(case)))
                if got.shape != want.shape or got.tobytes() != want.tobytes():
                    bad = np.argwhere(got != want)
                    ctx.fail("scale %d of the destination differs from the source"
                             " at (c,z,y,x)=%s (%s)" % (
                                 i, bad[0].tolist() if len(bad) else "?",
                                 describe(case)))
        return True
    finally:
        if srv is not None:
            srv.close()
        ctx.rmtree(root)


def describe(case):
    return "src %s %s %s -> dst %s %s %s, scales %s" % (
        case["src_kind"], case["src_dtype"], case["src_enc"],
        case["dst_kind"], case["dst_dtype"], case["dst_enc"],
        [(s["size"], s["chunk"]) + ((s["chunk2"],) if s.get("chunk2")
                                     else ()) for s in case["scales"]])


def run(ctx, n):
    def check(ctx, case):
        check_case(ctx, case)
        change = (case["src_enc"] != case["dst_enc"]
                  or case["src_dtype"] != case["dst_dtype"]
                  or ("sharded" in case["src_kind"]) != (
                      case["dst_kind"] == "sharded"))
        extra = []
        if case["dst_kind"] == "sharded":
            from vlib.refs import morton
            s0 = case["scales"][0]
            grid = [ds.ceil_div(a, b) for a, b in zip(s0["size"],
                                                      s0["chunk"])]
            mini, shard, pre = case["dbits"]
            shards = {morton.route(morton.compressed_morton_code(
                (x, y, z), grid), pre, mini, shard)[0]
                for x in range(grid[0]) for y in range(grid[1])
                for z in range(grid[2])}
            extra.append("dst_shards>32" if len(shards) > 32
                         else "dst_shards<=32")
        ctx.record(case, len(case["scales"]) >= 2 or change, extra + [
            "src." + case["src_kind"], "dst." + case["dst_kind"],
            "via." + case.get("via", "cli"),
            "%s->%s" % (case["src_enc"][:3], case["dst_enc"][:3]),
            "%s->%s" % (case["src_dtype"], case["dst_dtype"])])
    ctx.run_hypothesis(cases(), check, n)


def grid_cases():
    """The complete product of the discrete options (source layout x
    destination layout x type pair x encodings x entry point) on one small
    two-scale dataset with border chunks."""
    out = []
    k = 0
    for src_kind in SRC_KINDS:
        for dst_kind in sorted(set(DST_KINDS)):
            for sdt in sorted(WIDER):
                for ddt in (WIDER[sdt] if dst_kind != "copy_info" else [sdt]):
                    sencs = ["raw", "compressed_segmentation"] \
                        if sdt in ("uint32", "uint64") else ["raw"]
                    for senc in sencs:
                        dencs = ["raw", "compressed_segmentation"] \
                            if ddt in ("uint32", "uint64") else ["raw"]
                        if dst_kind == "copy_info":
                            dencs = [senc]
                        for denc in dencs:
                            for via in ("cli", "api"):
                                k += 1
                                out.append({
                                    "src_kind": src_kind,
                                    "dst_kind": dst_kind,
                                    "scales": [
                                        {"size": [3, 3, 3],
                                         "chunk": [2, 2, 2]},
                                        {"size": [2, 2, 2],
                                         "chunk": [2, 2, 2]}],
                                    "src_dtype": sdt, "dst_dtype": ddt,
                                    "src_enc": senc, "dst_enc": denc,
                                    "channels": 1 + k % 2,
                                    "bits": [k % 2, 1, 0],
                                    "dbits": [0, 1 + k % 2, k % 2],
                                    "shard_enc": ("raw", "gzip")[k % 2],
                                    "block": [2, 2, 2], "dblock": [2, 1, 2],
                                    "dst_spelling": "plain", "via": via,
                                    "dst_scales": ("same", "drop_first",
                                                   "reversed",
                                                   "last_only")[k % 4],
                                    "seed": k})
    return out


def run_grid(ctx, n):
    def check(ctx, case):
        check_case(ctx, case)
        ctx.record(case, True, [
            "src." + case["src_kind"], "dst." + case["dst_kind"],
            "via." + case["via"],
            "%s->%s" % (case["src_enc"][:3], case["dst_enc"][:3]),
            "%s->%s" % (case["src_dtype"], case["dst_dtype"])])
    ctx.run_grid(grid_cases(), check)


def replay(ctx, case):
    check_case(ctx, case)


SUBS = [Sub("convert", run, replay, quick=300, thorough=8000,
            min_per_shard=10),
        Sub("option_grid", run_grid, replay, quick=1, thorough=1, shards=14,
            sweep=True)]
