"""C07 - downscalers compute the documented block statistic exactly."""
import math
from fractions import Fraction

import numpy as np
from hypothesis import strategies as st

from vlib import datasets as dsets
from vlib.refs import downscale_ref as ref
from vlib.refs import dtype_ref
from vlib.runner import Sub

PROPERTY = "C07"
META = {
    "level": "exploration",
    "rule": ("Hypothesis draws (method, dtype, shape C1..3 x Z,Y,X 1..7, "
             "elements biased to type limits, factors, outside value); "
             "non-trivial = an odd axis that is downscaled or a block with "
             ">= 2 distinct values; distinct by the whole case."
             " Also: the 'auto' method, six memory layouts, warm-ups of th"
             'e same downscaler object on other data types, permuted axes '
             'and chunk shapes whose intermediate shapes collide; huge: wh'
             'ole-volume sized arrays (> 2^25 voxels).'
             " Round 12: non-dyadic outside values (mean just beside a tie)."
             " Round 16: the result is read only after the same downscaler has processed another array of the same shape and type."
             " Round 17: the downscaler under test is the second one made from one options dictionary object."
             " Round 19: differently configured downscalers created afterwards and kept alive."
             " Round 21: float32 arrays with infinite voxels of one sign."
             " Sub-check large_fixed: a fixed list of shapes beyond 64^3 voxels x factors x methods on every run (a round-2 change was caught by `large` at most seeds only)."),
    "trusted_base": ["vlib/refs/downscale_ref.py, dtype_ref.py (Fractions)"],
    "assumptions": ["finite values, or float32 infinities of one sign per array; float32 results compared within 1 ulp"],
}

DTYPES = ["uint8", "uint16", "uint32", "uint64", "float32"]
F32_MAX = float(np.finfo(np.float32).max)


def elements(dtype):
    if dtype == "float32":
        f = st.floats(allow_nan=False, allow_infinity=False, width=32)
        small = st.floats(-1000, 1000, width=32)
        return st.one_of(st.sampled_from([0.0, 1.0, -1.0, 0.5, 1e-38, -1e-38,
                                          F32_MAX, -F32_MAX, 255.0]), small, f)
    lo, hi = dtype_ref.INT_RANGE[dtype]
    anchors = [0, 1, 2, 3, hi - 1, hi, hi // 2, hi // 2 + 1]
    if dtype == "uint64":
        anchors += [2 ** 53, 2 ** 53 - 1, 2 ** 53 + 1, 2 ** 63, 2 ** 50 - 1,
                    2 ** 50 - 2, 2 ** 50 - 3, 2 ** 49 + 1]
    return st.one_of(st.sampled_from(anchors), st.integers(0, 5),
                     st.integers(lo, hi))


@st.composite
def cases(draw, method=None):
    method = method or draw(st.sampled_from(["average", "majority", "stride"]))
    dtype = draw(st.sampled_from(DTYPES))
    shape = [draw(st.integers(1, 3))] + [draw(st.integers(1, 7))
                                         for _ in range(3)]
    n = shape[0] * shape[1] * shape[2] * shape[3]
    if draw(st.booleans()):
        # few distinct values: ties and majorities happen
        pal = draw(st.lists(elements(dtype), min_size=1, max_size=3))
        data = draw(st.lists(st.sampled_from(pal), min_size=n, max_size=n))
    else:
        data = draw(st.lists(elements(dtype), min_size=n, max_size=n))
    if method == "average":
        factors = [draw(st.sampled_from([1, 2])) for _ in range(3)]
        # (the last ones are not dyadic: the mean of a border block then
        # lies just beside a tie or an integer)
        outside = draw(st.sampled_from([None, None, 0, 255, 0.5, 1000, 70000,
                                        1e-6, 0.001, 254.999, 0.3, -0.001,
                                        65534.999]))
    else:
        factors = [draw(st.integers(1, 4)) for _ in range(3)]
        outside = None
    # "auto" is the command-line default: the method follows the dataset type
    auto = method in ("average", "stride") and draw(st.integers(0, 2)) == 0
    infinite = None
    if dtype == "float32" and draw(st.integers(0, 3)) == 0:
        # saturated voxels of a float volume: infinities of one sign (the
        # mean of a block that holds one is that infinity)
        infinite = draw(st.sampled_from(["+", "-"]))
    return {"method": method, "dtype": dtype, "shape": shape, "data": data,
            "factors": factors, "outside": outside, "auto": auto,
            "infinite": infinite,
            # memory layout of the array handed to the downscaler
            "layout": draw(st.sampled_from(["c", "c", "c"] + list(
                dsets.LAYOUTS[1:])))}


def build(case):
    arr = np.array(case["data"], dtype=case["dtype"]).reshape(case["shape"])
    if case.get("infinite"):
        flat = arr.reshape(-1)
        flat[1::4] = np.inf if case["infinite"] == "+" else -np.inf
        if flat.size == 1:
            flat[0] = np.inf if case["infinite"] == "+" else -np.inf
    return arr


def get_downscaler(case):
    from neuroglancer_scripts.downscaling import get_downscaler
    opts = {}
    if case["outside"] is not None:
        opts["outside_value"] = float(case["outside"])
    # one options dictionary serves several datasets / calls (vars(args) of
    # a script, the options of a batch conversion): the downscaler used below
    # is the SECOND one made from the same dictionary object
    if case.get("auto"):
        info = {"type": {"average": "image",
                         "stride": "segmentation"}[case["method"]],
                "data_type": case.get("dtype", "uint8"), "num_channels": 1,
                "scales": []}
        get_downscaler("auto", info, opts)
        made = get_downscaler("auto", info, opts)
    else:
        get_downscaler(case["method"], None, opts)
        made = get_downscaler(case["method"], None, opts)
    # ... and other downscalers, configured differently, are created after it
    # and stay alive (one per dataset of a batch)
    others = [get_downscaler("average", None, {"outside_value": 13.0}),
              get_downscaler("average", None, {}),
              get_downscaler("majority", None, {})]
    made._kept_alive_beside = others
    return made


def f17(case):
    return case["dtype"] == "uint64" and case["method"] == "average" and any(
        v >= 2 ** 50 for v in case["data"])


def pad_sequence(shape, factors):
    """(axis, intermediate shape after completing that axis to a multiple of
    its factor) for the z, y, x stages of a block reduction of `shape`
    (C, Z, Y, X) by `factors` (x, y, z)."""
    cur = list(shape)
    out = []
    for axis, f in ((1, factors[2]), (2, factors[1]), (3, factors[0])):
        if f > 1:
            if cur[axis] % f:
                cur[axis] += f - cur[axis] % f
                out.append((axis, tuple(cur)))
            cur[axis] //= f
    return out


def colliding_shapes(shape, factors, limit=2):
    """Other chunk shapes whose reduction passes through one of this chunk's
    intermediate shapes while completing a DIFFERENT axis (border chunks of
    one volume do that to each other)."""
    mine = pad_sequence(shape, factors)
    if not mine:
        return []
    found = []
    top = [min(2 * n + 2, 12) for n in shape[1:]]
    for z in range(1, top[0] + 1):
        for y in range(1, top[1] + 1):
            for x in range(1, top[2] + 1):
                w = (shape[0], z, y, x)
                if w == tuple(shape):
                    continue
                for axis, inter in pad_sequence(w, factors):
                    if any(inter == p and axis != a for a, p in mine):
                        found.append(w)
                        break
                if len(found) >= limit:
                    return found
    return found


def check_case(ctx, case):
    if f17(case) and ctx.known("F17c"):
        return None
    arr = build(case)
    nested = arr.tolist()
    shape = tuple(case["shape"])
    factors = tuple(case["factors"])
    try:
        ds = get_downscaler(case)
    except ValueError:
        o = case["outside"]
        dt = np.dtype(case["dtype"])
        if o is not None and dt.kind in "iu" and not (
                np.iinfo(dt).min <= o <= np.iinfo(dt).max):
            # an outside value that the data type cannot hold is refused:
            # nothing is claimed about such an option set
            ctx.count("refused_outside_value_beyond_type_range")
            return False
        raise
    before = arr.tobytes()
    try:
        with np.errstate(all="ignore"):
            # a downscaler object serves every chunk of a pyramid: use it on
            # another array (other shape and dtype) first
            ds.downscale(np.ones((1, 3, 2, 5), dtype="uint16"), factors)
            if arr.size <= 512:
                # ... and on the same values with the axes permuted (chunks of
                # one volume that differ in which axis is odd)
                for perm in ((0, 1, 3, 2), (0, 3, 2, 1), (0, 2, 1, 3)):
                    ds.downscale(np.ascontiguousarray(arr.transpose(perm)),
                                 factors)
                # ... and on chunks of other shapes whose reduction passes
                # through the same intermediate shapes along another axis
                for w in colliding_shapes(arr.shape, factors):
                    fill = np.resize(arr.reshape(-1)[::-1], w).astype(
                        arr.dtype)
                    ds.downscale(fill, factors)
                    ctx.count("colliding_shape_warmups")
            out = ds.downscale(dsets.laid_out(arr, case.get("layout", "c")),
                               factors)
            # the result stays in use while the same downscaler serves the
            # next chunk of the same shape and type (other values)
            ds.downscale(np.ascontiguousarray(
                arr.reshape(-1)[::-1].reshape(arr.shape)), factors)
    except Exception as exc:
        ctx.fail("%s downscale%s of %s %s raised %s: %s" % (
            case["method"], factors, case["dtype"], shape,
            type(exc).__name__, exc))
    eshape = ref.out_shape(shape, factors)
    if tuple(out.shape) != eshape:
        ctx.fail("%s%s: output shape %s, expected %s for input %s" % (
            case["method"], factors, out.shape, eshape, shape))
    if out.dtype.newbyteorder("=") != arr.dtype.newbyteorder("="):
        ctx.fail("output dtype %s, expected %s" % (out.dtype, arr.dtype))
    if arr.tobytes() != before:
        ctx.fail("input array modified by downscale")
    got = np.asarray(out).tolist()
    outside = case["outside"]
    mode = {"average": "edge" if outside is None else "constant",
            "majority": "truncate", "stride": "truncate"}[case["method"]]
    nontrivial = any(f > 1 and s % f for f, s in zip(
        factors, (shape[3], shape[2], shape[1])))
    for c in range(eshape[0]):
        for z in range(eshape[1]):
            for y in range(eshape[2]):
                for x in range(eshape[3]):
                    vals = ref.block_values(nested, shape, factors, c, z, y, x,
                                            mode, outside)
                    g = got[c][z][y][x]
                    if len(set(vals)) > 1:
                        nontrivial = True
                    if case["method"] == "stride":
                        e = nested[c][z * factors[2]][y * factors[1]][
                            x * factors[0]]
                        ok = g == e
                    elif case["method"] == "majority":
                        e = ref.majority(vals)
                        ok = g == e
                    elif any(isinstance(v, float) and math.isinf(v)
                             for v in vals):
                        e = [v for v in vals if isinstance(v, float)
                             and math.isinf(v)][0]
                        ok = g == e
                    else:
                        m = ref.mean(vals)
                        if case["dtype"] == "float32":
                            # stated tolerance: one float32 ulp of the
                            # result plus float64 round-off of the largest
                            # contributor (the sums are formed in float64)
                            e = float(m)
                            ulp = float(np.spacing(np.float32(min(
                                abs(e), F32_MAX))))
                            if not np.isfinite(ulp):
                                ulp = 2.0 ** 104
                            tol = Fraction(ulp) + Fraction(
                                max(abs(v) for v in vals)) / 2 ** 50
                            ok = (np.isfinite(g)
                                  and abs(Fraction(g) - m) <= tol
                                  and min(vals) <= g <= max(vals))
                        else:
                            e = dtype_ref.to_int_type(m, case["dtype"])
                            ok = g == e
                            if not ok and outside is not None and \
                                    float(outside) != int(outside * 2) / 2:
                                # a non-dyadic outside value: the float64 sum
                                # is rounded, so a mean within that round-off
                                # of a tie may fall on either side
                                eps = Fraction(max(abs(v) for v in vals)
                                               ) / 2 ** 45
                                ok = dtype_ref.to_int_type(
                                    m - eps, case["dtype"]) <= g <= \
                                    dtype_ref.to_int_type(
                                        m + eps, case["dtype"])
                    if not ok:
                        ctx.fail("%s%s %s: output[%d,%d,%d,%d]=%r, exact "
                                 "reference %r from block %r (outside=%r)" % (
                                     case["method"], factors, case["dtype"],
                                     c, z, y, x, g, e, vals, outside))
    return nontrivial


def run_method(method):
    def run(ctx, n):
        def check(ctx, case):
            nt = check_case(ctx, case)
            if nt is None:
                ctx.count("excluded_F17c")
                return
            ctx.record(case, nt, [case["dtype"],
                                  "f%s" % "".join(map(str, case["factors"])),
                                  "outside.%s" % case["outside"]])
        ctx.run_hypothesis(cases(method), check, n)
    return run


# ---- unsupported factors must be refused -----------------------------------
@st.composite
def bad_cases(draw):
    method = draw(st.sampled_from(["average", "majority", "stride"]))
    if method == "average":
        factors = draw(st.lists(st.integers(-1, 5), min_size=2, max_size=4))
        if len(factors) == 3 and all(f in (1, 2) for f in factors):
            factors[draw(st.integers(0, 2))] = draw(st.sampled_from(
                [0, 3, 4, -1, -2]))
    else:
        factors = draw(st.lists(st.integers(-2, 4), min_size=2, max_size=4))
        if len(factors) == 3 and all(f >= 1 for f in factors):
            factors[draw(st.integers(0, 2))] = draw(st.sampled_from(
                [0, -1, -2]))
    return {"method": method, "factors": factors,
            "dtype": draw(st.sampled_from(DTYPES)),
            "shape": [1] + [draw(st.integers(1, 5)) for _ in range(3)]}


def check_bad(ctx, case):
    from neuroglancer_scripts.downscaling import get_downscaler
    ds = get_downscaler(case["method"], None, {})
    arr = np.zeros(case["shape"], dtype=case["dtype"])
    try:
        out = ds.downscale(arr, tuple(case["factors"]))
    except NotImplementedError:
        return
    except Exception as exc:
        ctx.fail("unsupported factors %s for %s raised %s instead of "
                 "NotImplementedError" % (case["factors"], case["method"],
                                          type(exc).__name__))
    ctx.fail("unsupported factors %s for %s were accepted (output shape %s)"
             % (case["factors"], case["method"], out.shape))


def run_bad(ctx, n):
    def check(ctx, case):
        ctx.record(case, True, [case["method"]])
        check_bad(ctx, case)
    ctx.run_hypothesis(bad_cases(), check, n)


# ---------------------------------------------------------------------------
# large arrays (beyond 64^3 voxels): vectorised exact integer reference
# ---------------------------------------------------------------------------
@st.composite
def large_cases(draw):
    return {"dtype": draw(st.sampled_from(["uint8", "uint16", "uint32"])),
            "shape": [draw(st.integers(1, 2)),
                      draw(st.sampled_from([54, 60, 65, 105, 128])),
                      draw(st.sampled_from([64, 70, 71])),
                      draw(st.sampled_from([64, 70, 73]))],
            "factors": [draw(st.sampled_from([1, 2])) for _ in range(3)],
            "method": draw(st.sampled_from(["average", "average", "stride"])),
            "outside": draw(st.sampled_from([None, None, 0, 255])),
            "seed": draw(st.integers(0, 2 ** 20))}


def int_average(arr, factors, outside):
    """Exact block mean with integer arithmetic (edge / constant completion,
    half-to-even rounding) - independent of the package's float code."""
    C, Z, Y, X = arr.shape
    fx, fy, fz = factors
    oz, oy, ox = -(-Z // fz), -(-Y // fy), -(-X // fx)
    a = arr.astype(np.int64)
    total = np.zeros((C, oz, oy, ox), dtype=np.int64)
    for dz in range(fz):
        for dy in range(fy):
            for dx in range(fx):
                zi = np.arange(oz) * fz + dz
                yi = np.arange(oy) * fy + dy
                xi = np.arange(ox) * fx + dx
                inside = ((zi < Z)[:, None, None] & (yi < Y)[None, :, None]
                          & (xi < X)[None, None, :])
                v = a[:, np.minimum(zi, Z - 1)][:, :, np.minimum(yi, Y - 1)][
                    :, :, :, np.minimum(xi, X - 1)]
                if outside is not None:
                    v = np.where(inside[None], v, int(outside))
                total += v
    n = fx * fy * fz
    q, r = np.divmod(total, n)
    out = q + (2 * r > n) + ((2 * r == n) & (q & 1))
    hi = int(np.iinfo(arr.dtype).max)
    return np.clip(out, 0, hi).astype(arr.dtype)


def check_large(ctx, case):
    rng = np.random.default_rng(case["seed"])
    dt = np.dtype(case["dtype"])
    arr = rng.integers(0, min(int(np.iinfo(dt).max), 2 ** 31), size=tuple(
        case["shape"]), endpoint=True).astype(dt)
    ds_ = get_downscaler({"method": case["method"],
                          "outside": case["outside"]})
    factors = tuple(case["factors"])
    try:
        with np.errstate(all="ignore"):
            out = ds_.downscale(arr, factors)
    except Exception as exc:
        ctx.fail("%s downscale%s of a %s array %s raised %s: %s" % (
            case["method"], factors, case["dtype"], case["shape"],
            type(exc).__name__, exc))
    if case["method"] == "stride":
        want = arr[:, ::factors[2], ::factors[1], ::factors[0]]
    else:
        want = int_average(arr, factors, case["outside"])
    if tuple(out.shape) != tuple(want.shape) or out.dtype != arr.dtype:
        ctx.fail("%s%s of %s: output shape %s dtype %s, expected %s %s" % (
            case["method"], factors, case["shape"], out.shape, out.dtype,
            want.shape, arr.dtype))
    if not np.array_equal(out, want):
        bad = np.argwhere(out != want)
        i = tuple(bad[0])
        ctx.fail("%s%s of a large %s array %s: %d voxels differ from the "
                 "exact block statistic, first at %s: %r vs %r" % (
                     case["method"], factors, case["dtype"], case["shape"],
                     len(bad), list(map(int, i)), out[i].item(),
                     want[i].item()))


def run_large(ctx, n):
    def check(ctx, case):
        check_large(ctx, case)
        ctx.record(case, True, [case["dtype"], case["method"]])
    ctx.run_hypothesis(large_cases(), check, n)


def run_large_fixed(ctx, n):
    """The same check on a fixed list of shapes x factors (every run, every
    seed): slab depths and plane sizes that are odd, even, just above 64."""
    cases_ = []
    for shape in ([1, 54, 70, 70], [1, 65, 71, 73], [2, 105, 64, 70],
                  [1, 128, 64, 64], [1, 60, 73, 64]):
        for factors in ([1, 1, 2], [2, 2, 2], [2, 1, 1]):
            for method, outside in (("average", None), ("average", 0),
                                    ("stride", None)):
                cases_.append({"dtype": ("uint8", "uint16", "uint32")[
                    len(cases_) % 3], "shape": shape, "factors": factors,
                    "method": method, "outside": outside,
                    "seed": 7 + len(cases_)})

    def check(ctx, case):
        check_large(ctx, case)
        ctx.record(case, True, [case["dtype"], case["method"]])
    ctx.run_grid(cases_, check)


def run_huge(ctx, n):
    """Whole-volume sized arrays (tens of millions of voxels), with plane
    sizes that are not powers of two: checked against the vectorised exact
    integer reference."""
    shapes = [([1, 40, 1000, 1000], [2, 2, 2], "average"),
              ([1, 67, 700, 690], [2, 2, 2], "stride"),
              ([1, 35, 1031, 977], [1, 2, 2], "average")]
    for k in range(max(1, min(n, len(shapes)))):
        shape, factors, method = shapes[k]
        case = {"seed": ctx.seed + k, "dtype": "uint8", "shape": shape,
                "factors": factors, "method": method, "outside": None}
        try:
            check_large(ctx, case)
        except AssertionError as exc:
            if type(exc).__name__ != "Violation":
                raise
            ctx.violations.append({"sub": "huge", "case": case,
                                   "message": str(exc)})
            break
        ctx.record(case, True, [method, "voxels>2^25"])


def replay(ctx, case):
    if "seed" in case and "data" not in case:
        return check_large(ctx, case)
    if "data" in case:
        check_case(ctx, case)
    else:
        check_bad(ctx, case)


SUBS = [
    Sub("average", run_method("average"), replay, quick=4000, thorough=225000),
    Sub("majority", run_method("majority"), replay, quick=2500,
        thorough=120000),
    Sub("stride", run_method("stride"), replay, quick=1500, thorough=60000),
    Sub("unsupported", run_bad, replay, quick=800, thorough=15000),
    Sub("large", run_large, replay, quick=24, thorough=900, shards=6),
    Sub("large_fixed", run_large_fixed, replay, quick=1, thorough=1,
        shards=6, sweep=True),
    Sub("huge", run_huge, replay, quick=1, thorough=3, shards=1),
]
