"""C10 - decoders never misbehave on malformed chunk data."""
import io
import signal
import struct

import numpy as np
from hypothesis import strategies as st

from checks import c02_cseg
from vlib.refs import cseg_spec
from vlib.runner import Sub

PROPERTY = "C10"
META = {
    "level": "exploration",
    "rule": ("per decoder (raw / compressed_segmentation / jpeg) Hypothesis "
             "draws parameters and either random bytes or a valid encoding "
             "followed by drawn mutations (truncate, extend, byte/bit flips, "
             "splice, format-directed field edits); non-trivial = a mutated "
             "valid input that gets past the header checks (reaches the "
             "per-channel block decoder / a JPEG whose header parses); "
             "distinct by the final byte string and parameters. Thorough "
             "adds an atheris campaign (fuzz_c10.py)."
             ' Also: valid files in the layouts other encoders produce (va'
             'lues before table, one global table with per-block bit width'
             's), valid_dataset: multi-scale datasets with per-scale block'
             ' sizes read through PrecomputedIO, valid_huge: channels of 2'
             '4+ MiB.'
             " Round 12: well-formed images of other containers / pixel types offered to the JPEG decoder."
             " Round 16: valid JPEG files in one-row / one-column layouts."
             " Round 18: mirrored sizes in codec_reuse."),
    "trusted_base": ["vlib/refs/cseg_spec.py encoder for alternative valid "
                     "layouts", "Pillow as JPEG writer"],
    "assumptions": ["a watchdog of 30 s decides 'hangs' (normal cases take "
                    "milliseconds)"],
}


class _Timeout(Exception):
    pass


def _alarm(signum, frame):
    raise _Timeout()


def decode_outcome(ctx, case):
    """Runs the decoder; returns ('array'|'format_error', deep?)"""
    from neuroglancer_scripts import _compressed_segmentation as cs
    from neuroglancer_scripts import chunk_encoding as ce
    kind = case["decoder"]
    X, Y, Z = case["size"]
    C = case["channels"]
    data = case["data"]
    deep = [False]
    if kind == "raw":
        enc = ce.RawChunkEncoder(case["dtype"], C)
    elif kind == "cseg":
        enc = ce.CompressedSegmentationEncoder(case["dtype"], C,
                                               list(case["block"]))
    else:
        enc = ce.JpegChunkEncoder("uint8", C)
        try:
            import PIL.Image
            PIL.Image.open(io.BytesIO(data))
            deep[0] = True
        except Exception:
            pass
    orig = cs._decode_channel_into

    def marked(*a, **k):
        deep[0] = True
        return orig(*a, **k)
    cs._decode_channel_into = marked
    old = signal.signal(signal.SIGALRM, _alarm)
    signal.alarm(30)
    try:
        try:
            out = enc.decode(data, (X, Y, Z))
        finally:
            signal.alarm(0)
            signal.signal(signal.SIGALRM, old)
            cs._decode_channel_into = orig
    except ce.InvalidFormatError:
        return "format_error", deep[0], None
    except _Timeout:
        ctx.fail("%s decoder did not return within 30 s (%d bytes)" % (
            kind, len(data)))
    except Exception as exc:
        ctx.fail("%s decoder raised %s instead of InvalidFormatError: %s "
                 "(dtype=%s C=%d size=%s block=%s, %d bytes, origin=%s)" % (
                     kind, type(exc).__name__, str(exc)[:200],
                     case.get("dtype"), C, case["size"], case.get("block"),
                     len(data), case.get("origin")))
    want_dtype = np.dtype(case["dtype"] if kind != "jpeg" else "uint8")
    if not isinstance(out, np.ndarray) or out.shape != (C, Z, Y, X):
        ctx.fail("%s decoder returned shape %s, expected %s" % (
            kind, getattr(out, "shape", None), (C, Z, Y, X)))
    if out.dtype != want_dtype:
        ctx.fail("%s decoder returned dtype %s, expected %s" % (
            kind, out.dtype, want_dtype))
    return "array", deep[0], out


# ---------------------------------------------------------------------------
# generators
# ---------------------------------------------------------------------------
dims = st.one_of(st.integers(1, 9), st.sampled_from([1, 2, 8]))


def mutate(draw, data, edits=()):
    """Apply a drawn list of mutations to bytes."""
    data = bytearray(data)
    ops = draw(st.lists(st.sampled_from(
        ["truncate", "extend", "flipbyte", "flipbit", "splice", "edit",
         "edit", "zero_run", "dup"]), min_size=1, max_size=4))
    log = []
    for op in ops:
        n = len(data)
        if op == "truncate" and n:
            k = draw(st.one_of(st.integers(0, n - 1),
                               st.sampled_from([n - 1, n - 4, n // 2, 4, 8])
                               .map(lambda v: max(0, min(n - 1, v)))))
            del data[k:]
        elif op == "extend":
            data += draw(st.binary(min_size=1, max_size=16))
        elif op == "flipbyte" and n:
            i = draw(st.integers(0, n - 1))
            data[i] = draw(st.integers(0, 255))
        elif op == "flipbit" and n:
            i = draw(st.integers(0, n - 1))
            data[i] ^= 1 << draw(st.integers(0, 7))
        elif op == "splice" and n > 1:
            i = draw(st.integers(0, n - 1))
            j = draw(st.integers(0, n - 1))
            k = draw(st.integers(1, 16))
            data[i:i + k] = data[j:j + k]
        elif op == "zero_run" and n:
            i = draw(st.integers(0, n - 1))
            k = draw(st.integers(1, 12))
            data[i:i + k] = bytes(min(k, n - i))
        elif op == "dup" and n:
            i = draw(st.integers(0, n - 1))
            data[i:i] = data[i:i + draw(st.integers(1, 8))]
        elif op == "edit" and edits:
            off, width, endian, values = draw(st.sampled_from(list(edits)))
            if off + width <= len(data):
                v = draw(st.sampled_from(values))
                data[off:off + width] = int(v % (1 << (8 * width))).to_bytes(
                    width, endian)
        log.append(op)
    return bytes(data), log


def cseg_edit_points(buf, C, size, block):
    """(offset, width, endian, candidate values) for every header field."""
    X, Y, Z = size
    g = (-(-X // block[0])) * (-(-Y // block[1])) * (-(-Z // block[2]))
    nwords = len(buf) // 4
    vals = [0, 1, 2, max(0, nwords - 1), nwords, nwords + 1, 2 ** 24 - 1,
            2 ** 32 - 1, C, C + 2 * g]
    pts = []
    for c in range(C):
        pts.append((4 * c, 4, "little", vals))
        base = 4 * struct.unpack_from("<I", buf, 4 * c)[0]
        for b in range(min(g, 6)):
            h = base + 8 * b
            pts.append((h, 3, "little", vals))          # table offset
            pts.append((h + 3, 1, "little", [0, 1, 2, 3, 4, 8, 16, 32, 64,
                                             255]))   # bits
            pts.append((h + 4, 4, "little", vals))      # values offset
    return pts


def jpeg_edit_points(buf):
    pts = []
    i = 2
    n = len(buf)
    while i + 4 <= n and buf[i] == 0xFF:
        marker = buf[i + 1]
        seglen = struct.unpack_from(">H", buf, i + 2)[0]
        pts.append((i + 2, 2, "big", [0, 1, 2, seglen - 1, seglen + 1, 65535]))
        if marker in (0xC0, 0xC1, 0xC2):
            h, w = struct.unpack_from(">HH", buf, i + 5)
            pts.append((i + 5, 2, "big", [0, 1, h - 1, h + 1, 2 * h, 4000]))
            pts.append((i + 7, 2, "big", [0, 1, w - 1, w + 1, 2 * w, 4000]))
            pts.append((i + 9, 1, "big", [0, 1, 2, 3, 4, 255]))
            pts.append((i + 4, 1, "big", [0, 7, 12, 16]))
        if marker == 0xDA:
            break
        i += 2 + seglen
    return pts


OTHER_IMAGES = [("PNG", "L"), ("PNG", "RGB"), ("PNG", "I;16"), ("PNG", "1"),
                ("PNG", "I"), ("PNG", "P"), ("PNG", "LA"), ("PNG", "RGBA"),
                ("TIFF", "L"), ("TIFF", "RGB"), ("TIFF", "F"), ("TIFF", "I"),
                ("TIFF", "I;16"), ("TIFF", "1"), ("TIFF", "CMYK"),
                ("JPEG", "CMYK"), ("JPEG", "L"), ("JPEG", "RGB"),
                ("GIF", "P"), ("GIF", "L"), ("BMP", "L"), ("BMP", "RGB"),
                ("BMP", "1")]


def other_image(fmt_mode, wh, seed):
    import PIL.Image
    fmt, mode = fmt_mode
    w, h = wh
    rng = np.random.default_rng(seed)
    if mode == "F":
        im = PIL.Image.fromarray(rng.random((h, w), dtype=np.float32) * 255)
    elif mode == "I":
        im = PIL.Image.fromarray(rng.integers(0, 70000, size=(h, w),
                                              dtype=np.int32))
    elif mode == "I;16":
        im = PIL.Image.fromarray(rng.integers(0, 65536, size=(h, w),
                                              dtype=np.uint16))
    else:
        bands = {"L": 1, "1": 1, "P": 1, "LA": 2, "RGB": 3, "RGBA": 4,
                 "CMYK": 4}[mode]
        a = rng.integers(0, 256, size=(h, w, bands), dtype=np.uint8)
        if mode in ("1", "P"):
            im = PIL.Image.fromarray(a[..., 0]).convert(mode)
        elif bands == 1:
            im = PIL.Image.fromarray(a[..., 0])
        else:
            im = PIL.Image.fromarray(a, mode)
    f = io.BytesIO()
    im.save(f, format=fmt)
    return f.getvalue()


def smooth_chunk(C, X, Y, Z, seed):
    rng = np.random.default_rng(seed)
    z, y, x = np.meshgrid(np.arange(Z), np.arange(Y), np.arange(X),
                          indexing="ij")
    base = (x * 7 + y * 5 + z * 3 + int(rng.integers(0, 100))) % 256
    return np.stack([(base + 40 * c) % 256 for c in range(C)]).astype("uint8")


@st.composite
def cases(draw, kind):
    from neuroglancer_scripts import chunk_encoding as ce
    size = [draw(dims), draw(dims), draw(dims)]
    X, Y, Z = size
    seed = draw(st.integers(0, 2 ** 32 - 1))
    origin = draw(st.sampled_from(["random", "mutated", "mutated", "mutated"]))
    if kind == "jpeg" and draw(st.integers(0, 5)) == 0:
        origin = "other_image"
    case = {"decoder": kind, "size": size}
    if kind == "raw":
        case["dtype"] = draw(st.sampled_from(["uint8", "uint16", "uint32",
                                              "uint64", "float32"]))
        case["channels"] = C = draw(st.integers(1, 3))
        n = C * X * Y * Z * np.dtype(case["dtype"]).itemsize
        if origin == "random":
            ln = draw(st.one_of(st.integers(0, 2 * n + 8), st.sampled_from(
                [0, 1, n - 1, n, n + 1, 2 * n])))
            data = draw(st.binary(min_size=max(0, ln), max_size=max(0, ln)))
        else:
            valid = np.random.default_rng(seed).integers(
                0, 255, size=n, dtype=np.uint8).tobytes()
            data, _ = mutate(draw, valid)
    elif kind == "cseg":
        case["dtype"] = draw(st.sampled_from(["uint32", "uint64"]))
        case["channels"] = C = draw(st.integers(1, 3))
        b = st.one_of(st.integers(1, 9), st.sampled_from([1, 2, 4, 8]))
        case["block"] = block = [draw(b), draw(b), draw(b)]
        g = (-(-X // block[0])) * (-(-Y // block[1])) * (-(-Z // block[2]))
        minlen = C * (4 + 8 * g)
        if origin == "random":
            ln = draw(st.one_of(st.integers(0, minlen + 64), st.sampled_from(
                [0, 3, 4, minlen - 1, minlen, minlen + 4, minlen + 8])))
            data = draw(st.binary(min_size=max(0, ln), max_size=max(0, ln)))
        else:
            p = {"dtype": case["dtype"], "channels": C, "size": size,
                 "block": block, "seed": seed, "share": True, "values":
                 draw(st.sampled_from(["small", "max", "ge2^32"])),
                 "pal": draw(st.lists(st.sampled_from(
                     ["1", "2", "3-4", "5-16", "17-256"]), min_size=1,
                     max_size=3))}
            chunk = c02_cseg.build_chunk(p)
            if draw(st.booleans()):
                valid = bytes(ce.CompressedSegmentationEncoder(
                    case["dtype"], C, block).encode(chunk))
            else:
                valid = cseg_spec.encode(chunk, block, order=draw(
                    st.sampled_from(["tv", "vt"])), share=draw(st.booleans()),
                    global_table=draw(st.integers(0, 3)) == 0)
            data, _ = mutate(draw, valid,
                             cseg_edit_points(valid, C, size, block))
    else:
        case["dtype"] = "uint8"
        case["channels"] = C = draw(st.sampled_from([1, 3]))
        if origin == "other_image":
            # a well-formed image file that is not what the chunk should be:
            # another container (PNG, TIFF, GIF, BMP) or another pixel type
            # (16-bit, 1-bit, 32-bit integer / float, palette, alpha, CMYK),
            # with the right or a wrong number of pixels
            data = other_image(
                draw(st.sampled_from(OTHER_IMAGES)),
                draw(st.sampled_from([(X, Y * Z), (X * Y, Z), (X, Y * Z + 1),
                                      (1, X * Y * Z), (X * Z, Y)])), seed)
        elif origin == "random":
            data = draw(st.one_of(
                st.binary(max_size=64),
                st.binary(max_size=64).map(lambda b: b"\xff\xd8\xff\xe0" + b)))
        else:
            chunk = smooth_chunk(C, X, Y, Z, seed)
            valid = ce.JpegChunkEncoder("uint8", C, jpeg_quality=draw(
                st.sampled_from([50, 95])), jpeg_plane=draw(
                    st.sampled_from(["xy", "xz"]))).encode(chunk)
            data, _ = mutate(draw, valid, jpeg_edit_points(valid))
    case["origin"] = origin
    case["data"] = data
    return case


def check_case(ctx, case):
    return decode_outcome(ctx, case)


def run_kind(kind):
    def run(ctx, n):
        def check(ctx, case):
            outcome, deep, _ = check_case(ctx, case)
            ctx.record(case, case["origin"] == "mutated" and (deep or kind == "raw"),
                       [case["origin"], outcome,
                        "deep" if deep else "shallow"])
        ctx.run_hypothesis(cases(kind), check, n)
    return run


# ---------------------------------------------------------------------------
# valid data is never rejected (alternative valid layouts)
# ---------------------------------------------------------------------------
@st.composite
def valid_cases(draw):
    kind = draw(st.sampled_from(["cseg", "cseg", "raw", "jpeg"]))
    size = [draw(dims), draw(dims), draw(dims)]
    case = {"decoder": kind, "size": size, "origin": "valid",
            "seed": draw(st.integers(0, 2 ** 32 - 1))}
    if kind == "cseg":
        b = st.one_of(st.integers(1, 9), st.sampled_from([1, 2, 4, 8]))
        case.update({
            "dtype": draw(st.sampled_from(["uint32", "uint64"])),
            "channels": draw(st.integers(1, 3)),
            "block": [draw(b), draw(b), draw(b)],
            "pal": draw(st.lists(st.sampled_from(sorted(
                c02_cseg.PAL_CLASSES)), min_size=1, max_size=3)),
            "values": draw(st.sampled_from(["small", "max", "ge2^32",
                                            "ge2^53"])),
            "share": draw(st.booleans()),
            "layout": {"order": draw(st.sampled_from(["tv", "vt"])),
                       "share": draw(st.booleans()),
                       "bump_bits": draw(st.booleans()),
                       "reverse_table": draw(st.booleans()),
                       "global_table": draw(st.integers(0, 3)) == 0}})
    elif kind == "raw":
        case.update({"dtype": draw(st.sampled_from(
            ["uint8", "uint16", "uint32", "uint64", "float32"])),
            "channels": draw(st.integers(1, 3))})
    else:
        case.update({"dtype": "uint8", "channels": draw(
            st.sampled_from([1, 3])), "quality": draw(st.integers(1, 100)),
            # the format allows any image width and height whose product is
            # the number of voxels (pixels in x-fastest order): the two
            # layouts the package writes, one row, one column
            "plane": draw(st.sampled_from(["xy", "xz", "row", "col"]))})
    return case


def check_valid(ctx, case):
    from neuroglancer_scripts import chunk_encoding as ce
    kind = case["decoder"]
    X, Y, Z = case["size"]
    C = case["channels"]
    if kind == "cseg":
        chunk = c02_cseg.build_chunk(case)
        data = cseg_spec.encode(chunk, case["block"], **case["layout"])
        cseg_spec.validate(data, chunk.shape, case["block"], chunk.dtype)
    elif kind == "raw":
        dt = np.dtype(case["dtype"]).newbyteorder("<")
        chunk = np.frombuffer(np.random.default_rng(case["seed"]).bytes(
            C * X * Y * Z * dt.itemsize), dtype=dt).reshape(C, Z, Y, X)
        data = chunk.tobytes()
    else:
        chunk = smooth_chunk(C, X, Y, Z, case["seed"])
        # a JPEG written by an independent writer call (Pillow directly)
        import PIL.Image
        plane = chunk.reshape(C, *{"xy": (Z * Y, X), "xz": (Z, Y * X),
                                   "row": (1, Z * Y * X),
                                   "col": (Z * Y * X, 1)}[case["plane"]])
        img = PIL.Image.fromarray(plane[0] if C == 1
                                  else np.moveaxis(plane, 0, -1))
        bio = io.BytesIO()
        img.save(bio, format="jpeg", quality=case["quality"], subsampling=0)
        data = bio.getvalue()
    c2 = dict(case)
    # decoding malformed data first must not poison later decodes
    c2["data"] = data[:max(0, len(data) // 2)]
    decode_outcome(ctx, c2)
    c2["data"] = data[::-1]
    decode_outcome(ctx, c2)
    c2["data"] = data
    outcome, deep, out = decode_outcome(ctx, c2)
    if outcome != "array":
        ctx.fail("valid %s data rejected (size=%s, params=%s)" % (
            kind, case["size"], {k: v for k, v in case.items()
                                 if k not in ("data",)}))
    if kind != "jpeg":
        if not np.array_equal(out.view(np.uint8), chunk.view(np.uint8)):
            ctx.fail("valid %s data decoded to different values (size=%s, "
                     "layout=%s)" % (kind, case["size"], case.get("layout")))
    return True


def run_valid(ctx, n):
    def check(ctx, case):
        check_valid(ctx, case)
        ctx.record(case, True, ["valid." + case["decoder"]])
    ctx.run_hypothesis(valid_cases(), check, n)


# ---------------------------------------------------------------------------
# valid data with very large blocks / label counts at the 16-bit boundary
# ---------------------------------------------------------------------------
@st.composite
def valid_large_cases(draw):
    size = draw(st.sampled_from([[64, 32, 32], [32, 64, 32], [16, 64, 64],
                                 [41, 41, 39]]))
    n = size[0] * size[1] * size[2]
    return {"size": size, "dtype": draw(st.sampled_from(["uint32",
                                                         "uint64"])),
            "nlabels": draw(st.sampled_from(sorted({65535, 65536, n, 257,
                                                    256}))),
            "writer": draw(st.sampled_from(["package", "spec"])),
            "seed": draw(st.integers(0, 2 ** 20))}


def check_valid_large(ctx, case):
    from neuroglancer_scripts import chunk_encoding as ce
    X, Y, Z = case["size"]
    n = X * Y * Z
    k = min(case["nlabels"], n)
    rng = np.random.default_rng(case["seed"])
    labels = (rng.integers(0, 2 ** 31) + np.arange(k, dtype=np.uint64))
    flat = np.concatenate([labels, labels[rng.integers(0, k, size=n - k)]])
    rng.shuffle(flat)
    dt = np.dtype(case["dtype"]).newbyteorder("<")
    chunk = flat.astype(dt).reshape(1, Z, Y, X)
    block = list(case["size"])
    if case["writer"] == "package":
        data = bytes(ce.CompressedSegmentationEncoder(
            case["dtype"], 1, block).encode(chunk))
    else:
        data = cseg_spec.encode(chunk, block)
    try:
        cseg_spec.validate(data, chunk.shape, block, dt)
    except cseg_spec.SpecError as exc:
        if case["writer"] == "spec":
            raise
        ctx.fail("package encoder output is not well formed: %s" % exc)
    c2 = {"decoder": "cseg", "dtype": case["dtype"], "channels": 1,
          "size": case["size"], "block": block, "data": data,
          "origin": "valid_large"}
    outcome, deep, out = decode_outcome(ctx, c2)
    if outcome != "array":
        ctx.fail("valid compressed_segmentation data rejected: one block of "
                 "%s voxels with %d distinct labels written by the %s "
                 "encoder" % (case["size"], k, case["writer"]))
    if not np.array_equal(out, chunk):
        ctx.fail("valid data (block %s, %d labels) decoded to different "
                 "values" % (case["size"], k))


def run_valid_large(ctx, n):
    def check(ctx, case):
        check_valid_large(ctx, case)
        ctx.record(case, True, ["labels%d" % case["nlabels"],
                                "writer." + case["writer"]])
    ctx.run_hypothesis(valid_large_cases(), check, n)


# ---------------------------------------------------------------------------
# one decoder object, several decodes (the I/O layer keeps one codec per
# scale): results must not depend on what was decoded before
# ---------------------------------------------------------------------------
@st.composite
def reuse_cases(draw):
    b = [draw(st.sampled_from([1, 2, 4, 8])) for _ in range(3)]
    grid = [draw(st.integers(1, 3)) for _ in range(3)]
    # two sizes with the same block grid, one with a larger grid
    s1 = [g * k for g, k in zip(grid, b)]
    s2 = [max(1, g * k - draw(st.integers(0, k - 1)))
          for g, k in zip(grid, b)]
    s3 = list(s1)
    s3[draw(st.integers(0, 2))] += 1
    return {"dtype": draw(st.sampled_from(["uint32", "uint64"])),
            "channels": draw(st.integers(1, 2)), "block": b,
            "sizes": [s1, s2, s3],
            "label": draw(st.sampled_from([0, 1, 7, 2 ** 31, 2 ** 32 - 1])),
            "uniform": draw(st.booleans()),
            "order": draw(st.permutations([0, 1, 2, 0, 1]))}


def check_reuse(ctx, case):
    from neuroglancer_scripts import chunk_encoding as ce
    C = case["channels"]
    dt = np.dtype(case["dtype"]).newbyteorder("<")
    enc = ce.CompressedSegmentationEncoder(case["dtype"], C,
                                           list(case["block"]))
    raw = ce.RawChunkEncoder(case["dtype"], C)
    chunks, bufs, rbufs = [], [], []
    # ... and the mirrored sizes (Z, Y, X): border chunks at the X end and at
    # the Z end of one volume have each other's shape
    sizes = [list(s_) for s_ in case["sizes"]]
    sizes += [s_[::-1] for s_ in sizes[1:] if s_[::-1] not in sizes]
    case = dict(case, sizes=sizes, order=list(case["order"]) + list(
        range(3, len(sizes))) + [2, 1])
    for i, (X, Y, Z) in enumerate(case["sizes"]):
        a = np.full((C, Z, Y, X), case["label"], dtype=dt)
        if not case["uniform"]:
            a[..., 0] += 1
        chunks.append(a)
        bufs.append(bytes(enc.encode(a)))
        rbufs.append(raw.encode(a))
    for i in case["order"]:
        X, Y, Z = case["sizes"][i]
        for codec, data in ((enc, bufs[i]), (raw, rbufs[i])):
            try:
                out = codec.decode(data, (X, Y, Z))
            except Exception as exc:
                ctx.fail("%s: valid data for size %s rejected after other "
                         "decodes with the same codec object: %s %s" % (
                             type(codec).__name__, case["sizes"][i],
                             type(exc).__name__, exc))
            if out.shape != chunks[i].shape or not np.array_equal(
                    out, chunks[i]):
                ctx.fail("%s: decoding size %s after other decodes with the "
                         "same codec object gives shape %s (expected %s)" % (
                             type(codec).__name__, case["sizes"][i],
                             out.shape, chunks[i].shape))
        # bytes of another chunk with the requested size of this one
        j = (i + 1) % len(case["sizes"])
        for codec, data in ((enc, bufs[j]), (raw, rbufs[j])):
            try:
                out = codec.decode(data, (X, Y, Z))
            except ce.InvalidFormatError:
                continue
            except Exception as exc:
                ctx.fail("%s raised %s instead of InvalidFormatError" % (
                    type(codec).__name__, type(exc).__name__))
            if out.shape != chunks[i].shape:
                ctx.fail("%s: data of a chunk of size %s decoded with "
                         "requested size %s returns shape %s" % (
                             type(codec).__name__, case["sizes"][j],
                             case["sizes"][i], out.shape))


def run_reuse(ctx, n):
    def check(ctx, case):
        check_reuse(ctx, case)
        ctx.record(case, True, ["uniform" if case["uniform"]
                                else "nonuniform"])
    ctx.run_hypothesis(reuse_cases(), check, n)


def replay(ctx, case):
    if case.get("huge"):
        return check_valid_huge(ctx, case)
    if "scales" in case:
        return check_valid_dataset(ctx, case)
    if "sizes" in case:
        return check_reuse(ctx, case)
    if "nlabels" in case:
        return check_valid_large(ctx, case)
    if "data" in case:
        check_case(ctx, case)
    else:
        check_valid(ctx, case)


# ---------------------------------------------------------------------------
# atheris (coverage-guided) campaign: same oracle, inside the target
# ---------------------------------------------------------------------------
def atheris_seeds(kind):
    from neuroglancer_scripts import chunk_encoding as ce
    out = []
    for i in range(6):
        p = bytes([i, 1 + i, 2, 3 + i % 3, i % 3, 1 + i, 1, 2 + i])
        size = [1 + p[1] % 6, 1 + p[2] % 6, 1 + p[3] % 6]
        X, Y, Z = size
        C = 1 + p[4] % 3
        if kind == "raw":
            dt = ["uint8", "uint16", "uint32", "uint64", "float32"][p[0] % 5]
            body = bytes(C * X * Y * Z * np.dtype(dt).itemsize)
        elif kind == "cseg":
            dt = ["uint32", "uint64"][p[0] % 2]
            block = [1 + p[5] % 8, 1 + p[6] % 8, 1 + p[7] % 8]
            chunk = c02_cseg.build_chunk({
                "dtype": dt, "channels": C, "size": size, "block": block,
                "seed": i, "share": True, "values": "small",
                "pal": ["2", "5-16"]})
            body = bytes(ce.CompressedSegmentationEncoder(dt, C, block)
                         .encode(chunk))
        else:
            C = [1, 3][p[0] % 2]
            body = ce.JpegChunkEncoder("uint8", C).encode(
                smooth_chunk(C, X, Y, Z, i))
        out.append(p + body)
    if kind == "jpeg":
        # other image containers / pixel types of the right size
        for i, fm in enumerate([("PNG", "L"), ("PNG", "I;16"), ("TIFF", "F"),
                                ("PNG", "RGB"), ("GIF", "P"), ("BMP", "1")]):
            p = bytes([i, 1 + i, 2, 3 + i % 3, i % 3, 1 + i, 1, 2 + i])
            X, Y, Z = [1 + p[1] % 6, 1 + p[2] % 6, 1 + p[3] % 6]
            out.append(p + other_image(fm, (X, Y * Z), i))
    return out


def atheris_deep(kind, data):
    class _C:
        def fail(self, msg):
            raise AssertionError(msg)
    p = bytes(data[:8]).ljust(8, b"\0")
    size = [1 + p[1] % 6, 1 + p[2] % 6, 1 + p[3] % 6]
    if kind == "raw":
        return len(data) > 8
    case = {"decoder": kind, "size": size, "data": bytes(data[8:]),
            "channels": 1 + p[4] % 3 if kind == "cseg" else [1, 3][p[0] % 2],
            "dtype": ["uint32", "uint64"][p[0] % 2] if kind == "cseg"
            else "uint8", "block": [1 + p[5] % 8, 1 + p[6] % 8, 1 + p[7] % 8]}
    return decode_outcome(_C(), case)[1]


def run_atheris(ctx, n):
    from vlib import atheris_run
    if ctx.tier == "quick":
        atheris_run.campaign(ctx, ["raw", "cseg", "jpeg"], atheris_seeds,
                             atheris_deep, runs=n)
    else:
        atheris_run.campaign(ctx, ["raw", "cseg", "jpeg"], atheris_seeds,
                             atheris_deep, seconds=n)


# ---- valid files of a multi-scale dataset, read through the I/O layer ---------
def check_valid_dataset(ctx, case):
    """Chunk files written by the independent encoder with the block size of
    their scale (the block size is a per-scale field) are read through
    PrecomputedIO.read_chunk: valid data is never rejected or mis-decoded."""
    import os

    from vlib import datasets as ds
    d = ctx.tmpdir("validds")
    try:
        scales = [ds.make_scale(
            "s%d" % i, sc["size"], sc["chunk"], "compressed_segmentation",
            block=sc["block"]) for i, sc in enumerate(case["scales"])]
        info = ds.make_info(case["dtype"], case["channels"], scales,
                            "segmentation")
        pio = ds.new_dataset(info, {"type": "file", "flat": case["flat"],
                                    "gzip": False}, os.path.join(d, "ds"))
        truth = []
        for i, (sc, p) in enumerate(zip(scales, case["scales"])):
            vol = c02_cseg.build_chunk({
                "dtype": case["dtype"], "channels": case["channels"],
                "size": p["size"], "block": p["block"],
                "pal": case["pal"], "values": case["values"],
                "share": True, "seed": case["seed"] + i})
            for cc in ds.chunk_coords_list(sc["size"],
                                           sc["chunk_sizes"][0]):
                x0, x1, y0, y1, z0, z1 = cc
                w = np.ascontiguousarray(vol[:, z0:z1, y0:y1, x0:x1])
                pio.accessor.store_chunk(cseg_spec.encode(
                    w, p["block"], order=["tv", "vt"][case["seed"] % 2],
                    global_table=case["seed"] % 3 == 0), sc["key"], cc)
                truth.append((sc["key"], cc, w, i))
        pio2 = ds.open_dataset(os.path.join(d, "ds"))
        for key, cc, w, i in truth:
            try:
                got = pio2.read_chunk(key, cc)
            except Exception as exc:
                ctx.fail("valid compressed_segmentation chunk %s of scale "
                         "%d (block size %s) rejected by read_chunk: %s "
                         "%s (scales %s)" % (
                             cc, i, case["scales"][i]["block"],
                             type(exc).__name__, exc, case["scales"]))
            if got.shape != w.shape or not np.array_equal(got, w):
                ctx.fail("valid compressed_segmentation chunk %s of scale "
                         "%d (block size %s) decoded to other labels by "
                         "read_chunk (scales %s)" % (
                             cc, i, case["scales"][i]["block"],
                             case["scales"]))
    finally:
        ctx.rmtree(d)


def check_valid_huge(ctx, case):
    """A valid compressed_segmentation channel of more than 16 MiB (lookup
    tables beyond 2**22 words): decoded exactly."""
    from neuroglancer_scripts.chunk_encoding import \
        CompressedSegmentationEncoder
    nb, side = case["blocks"], 64
    vox = side ** 3
    chunk = np.empty((1, side * nb, side, side), dtype="<u8")
    for b in range(nb):
        chunk[0, b * side:(b + 1) * side] = (
            np.arange(vox, dtype=np.uint64) * np.uint64(3) + np.uint64(
                b * vox + case["seed"] % 1000)).reshape(side, side, side)
    enc = CompressedSegmentationEncoder("uint64", 1, [side] * 3)
    buf = bytes(enc.encode(chunk))
    # (the encoder's output for such channels is checked against the format
    # description by C02 huge_channel; here: a few corners as a precondition)
    for b in (0, nb - 1):
        ref = cseg_spec.decode_corner(buf, chunk.shape, [side] * 3, "<u8",
                                      b, 2)
        if not np.array_equal(ref, chunk[0, b * side:b * side + 2, :2, :2]):
            raise AssertionError("harness: the input file is not valid")
    try:
        got = enc.decode(buf, (side, side, side * nb))
    except Exception as exc:
        ctx.fail("valid %d MiB compressed_segmentation channel rejected: %s "
                 "%s" % (len(buf) >> 20, type(exc).__name__, exc))
    if got.shape != chunk.shape or not np.array_equal(got, chunk):
        bad = np.argwhere(got != chunk)
        ctx.fail("valid %d MiB compressed_segmentation channel decoded to "
                 "other labels (%d voxels, first at %s)" % (
                     len(buf) >> 20, len(bad), bad[0].tolist()))


def run_valid_huge(ctx, n):
    for k in range(max(1, n)):
        case = {"blocks": 8 + 2 * k, "huge": True, "seed": ctx.seed + k}
        try:
            check_valid_huge(ctx, case)
        except AssertionError as exc:
            if type(exc).__name__ != "Violation":
                raise
            ctx.violations.append({"sub": "valid_huge", "case": case,
                                   "message": str(exc)})
            break
        ctx.record(case, True, ["blocks%d" % case["blocks"]])


def run_valid_dataset(ctx, n):
    def check(ctx, case):
        check_valid_dataset(ctx, case)
        ctx.record(case, len({tuple(p["block"])
                              for p in case["scales"]}) >= 2,
                   ["scales%d" % len(case["scales"])])
    ctx.run_hypothesis(c02_cseg.dataset_cases(), check, n)


SUBS = [
    Sub("raw", run_kind("raw"), replay, quick=2500, thorough=200000),
    Sub("cseg", run_kind("cseg"), replay, quick=6000, thorough=600000),
    Sub("jpeg", run_kind("jpeg"), replay, quick=4000, thorough=300000),
    Sub("valid", run_valid, replay, quick=1500, thorough=80000),
    Sub("valid_large", run_valid_large, replay, quick=24, thorough=800,
        shards=6),
    Sub("valid_dataset", run_valid_dataset, replay, quick=150, thorough=6000),
    Sub("valid_huge", run_valid_huge, replay, quick=1, thorough=3, shards=1),
    Sub("codec_reuse", run_reuse, replay, quick=800, thorough=40000),
    Sub("atheris", run_atheris, replay, quick=30000, thorough=120,
        serial=True),
]
